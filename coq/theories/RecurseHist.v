(* RecurseHist.v — recursive watches over WHOLE HISTORIES (property C19).
   Ground truth: a directory-tree environment (inode ↦ true current path of each directory) evolving by
   macro-steps: mkdir one level at a time, rename of an inner directory within a watched tree, file operations
   at any depth, recursive Add and recursive Remove of one of several roots.  Each macro-step expands to a
   System history: the filesystem change queues exactly the notifications the inotify contract prescribes for
   the marks that exist, then the reader handles everything that is queued ([expand]).
   Proved for all well-formed macro-histories ([mwf], decidable) from any initial tree ([init_ok]):
     - [covered_run] / [covered_spec]: every directory below a watched root has a kernel mark, an entry in
       watches.wd carrying its TRUE CURRENT PATH and a key in watches.path under that same path; conversely
       every entry is such a directory (nothing stale, nothing dangling); the queue is empty;
     - [events_true_paths]: the events delivered are exactly [expected_all], computed from the tree alone,
       and no error is ever sent; [expand_valid]: the expansion is a valid System history without API errors;
     - [rename_keeps_coverage], [rename_spares_prefix_siblings], [remove_exactly_that_tree],
       [mkdir_covered_at_once] (and their _hist forms).
   This is about the REPAIRED rename loop (Watcher.rewrite_paths re-keys watches.path together with the watch
   paths, see rekey_paths); before the repair the keys of watches.path stayed at the old names, and the three
   histories ex_ha / ex_hb / ex_hc at the end of this file went wrong.
   Everything here is proved; no axioms. *)
From stdpp Require Import gmap strings list sorting.
From Fsn Require Import PathLex Bytes Tables Doc Watcher System Recurse Refine SpecInv RingProofs.
From Fsn Require PathLexProofs.
Local Open Scope N_scope.

(* ------------------------------------------------------------------ *)
(* 1. the environment model                                            *)
(* ------------------------------------------------------------------ *)

Definition cfgR : config := mkCfg true "/".

(* inode ↦ true, absolute, clean path of each DIRECTORY.  Indexing by inode makes "inodes are distinct"
   hold by construction; "paths are distinct" is an invariant (ei_inj). *)
Notation tree := (gmap N string).

Record menv := mkEnv {
  e_tree : tree;
  e_roots : list string;        (* the recursive roots currently watched *)
  e_next_ino : N;
  e_next_cookie : N;
  e_next_wd : N;                (* what the kernel will hand out next (only used for the 32-bit bound) *)
}.

Inductive mstep :=
| MMkdir (d n : string)                 (* mkdir d/n *)
| MRenameDir (d n d' n' : string)       (* rename d/n → d'/n' *)
| MFile (d n : string) (mask : N)       (* a file operation on d/n *)
| MAddRec (root : string)               (* Add(root/...) *)
| MRemoveRec (root : string).           (* Remove(root/...) *)

Definition child (d n : string) : string := d +:+ "/" +:+ n.

(* reverse lookup in an injective map (the shape of Watcher.find_mark) *)
Definition rlookup {A} `{EqDecision A} (m : gmap N A) (a : A) : option N :=
  fst <$> head (filter (λ p, bool_decide (p.2 = a)) (map_to_list m)).
Definition ino_of (T : tree) (p : string) : option N := rlookup T p.

Definition dirs_of (T : tree) : list (string * N) := (λ ip, (ip.2, ip.1)) <$> map_to_list T.

Definition watched (R : list string) (p : string) : bool := existsb (is_under p) R.

(* where a directory ends up when old is renamed to new *)
Notation mv := moved_path.

(* the kernel pads the name to a multiple of 16 bytes, at least one NUL *)
Definition name_len (n : string) : N := 16 * (N.of_nat (String.length n) / 16 + 1).

Definition mk_create : N := N.lor IN_CREATE IN_ISDIR.
Definition mk_from : N := N.lor IN_MOVED_FROM IN_ISDIR.
Definition mk_to : N := N.lor IN_MOVED_TO IN_ISDIR.
Definition file_masks : list N := [IN_CREATE; IN_MODIFY; IN_ATTRIB; IN_DELETE].
Definition add_ops : N := 31.      (* Create|Write|Remove|Rename|Chmod: the default of Add *)

(* WalkDir order: lexical pre-order = lexicographic order on the component lists *)
Fixpoint comps_leb (a b : list string) : bool :=
  match a, b with
  | [], _ => true
  | _ :: _, [] => false
  | x :: a', y :: b' =>
    match String.compare x y with Lt => true | Gt => false | Eq => comps_leb a' b' end
  end.
Definition walk_le (a b : string * N) : Prop := comps_leb (split_slash a.1) (split_slash b.1) = true.
Global Instance walk_le_dec a b : Decision (walk_le a b).
Proof. unfold walk_le. apply _. Defined.

Definition under_list (T : tree) (root : string) : list (string * N) :=
  filter (λ d, is_under d.1 root = true) (dirs_of T).
Definition walk_of (T : tree) (root : string) : list (string * N) := merge_sort walk_le (under_list T root).
Definition walk_arg (l : list (string * N)) : list (string * resolution) :=
  (λ d, (d.1, (inr d.2, inr d.2))) <$> l.

Definition env_step (E : menv) (st : mstep) : menv :=
  match st with
  | MMkdir d n =>
    let p := child d n in
    let w := watched (e_roots E) d in
    mkEnv (<[e_next_ino E := p]> (e_tree E)) (e_roots E)
          (N.succ (e_next_ino E)) (e_next_cookie E)
          (if w then N.succ (e_next_wd E) else e_next_wd E)
  | MRenameDir d n d' n' =>
    let old := child d n in let new := child d' n' in
    mkEnv (mv old new <$> e_tree E) (e_roots E)
          (e_next_ino E) (N.succ (e_next_cookie E)) (e_next_wd E)
  | MFile _ _ _ => E
  | MAddRec root =>
    let l := under_list (e_tree E) root in
    mkEnv (e_tree E) (root :: e_roots E)
          (e_next_ino E) (e_next_cookie E) (e_next_wd E + N.of_nat (length l))
  | MRemoveRec root =>
    mkEnv (e_tree E) (filter (λ r, r ≠ root) (e_roots E))
          (e_next_ino E) (e_next_cookie E) (e_next_wd E)
  end.

(* ---- the expansion into a System history ---- *)
Definition wd_of (E : menv) (s : sys) (p : string) : option N := ino_of (e_tree E) p ≫= find_mark (K s).

Definition emit_on (E : menv) (s : sys) (p : string) (mask cookie len : N) (n : string) : list step :=
  match wd_of E s p with Some wd => [KEmit (mkRaw wd mask cookie len n)] | None => [] end.

Definition emit (E : menv) (s : sys) (st : mstep) : list step :=
  match st with
  | MMkdir d n => emit_on E s d mk_create 0 (name_len n) n
  | MFile d n mask => emit_on E s d mask 0 (name_len n) n
  | MRenameDir d n d' n' =>
    let c := e_next_cookie E in
    emit_on E s d mk_from c (name_len n) n ++ emit_on E s d' mk_to c (name_len n') n'
    ++ emit_on E s (child d n) IN_MOVE_SELF 0 0 ""
  | MAddRec root => [SAdd (root +:+ "/...") add_ops false (walk_arg (walk_of (e_tree E) root))]
  | MRemoveRec root => [SRemove (root +:+ "/...")]
  end.

Definition mstate : Type := menv * sys.

(* the change and its notifications, then the reader handles everything that is queued *)
Definition expand (M : mstate) (st : mstep) : list step :=
  let pre := emit M.1 M.2 st in
  pre ++ replicate (length (kq (K (run cfgR pre M.2).1))) (SHandle (dirs_of (e_tree (env_step M.1 st)))).

Definition mstep_run (M : mstate) (st : mstep) : mstate :=
  (env_step M.1 st, (run cfgR (expand M st) M.2).1).

Fixpoint mrun (M : mstate) (h : list mstep) : mstate :=
  match h with [] => M | st :: h' => mrun (mstep_run M st) h' end.

Fixpoint expand_all (M : mstate) (h : list mstep) : list step :=
  match h with [] => [] | st :: h' => expand M st ++ expand_all (mstep_run M st) h' end.

(* ---- what a macro-step is expected to deliver: computed from the environment alone ---- *)
Definition event : Type := string * N * string.

Definition expected (E : menv) (st : mstep) : list event :=
  match st with
  | MMkdir d n => if watched (e_roots E) d then [(child d n, Create, "")] else []
  | MFile d n mask => if watched (e_roots E) d then [(child d n, translate mask, "")] else []
  | MRenameDir d n d' n' => [(child d n, Rename, ""); (child d' n', Create, child d n)]
  | MAddRec _ | MRemoveRec _ => []
  end.

Fixpoint expected_all (E : menv) (h : list mstep) : list event :=
  match h with [] => [] | st :: h' => expected E st ++ expected_all (env_step E st) h' end.

(* ---- well-formedness of macro-histories (decidable) ---- *)
(* a component name: not empty, not "." or "..", no '/', no NUL (what mkdir(2)/rename(2) accept) *)
Definition comp_okb (n : string) : bool :=
  negb (String.eqb n "") && negb (String.eqb n ".") && negb (String.eqb n "..")
  && forallb (λ c, negb (is_slash c)) (list_ascii_of_string n) && no_nul n.

(* a path spelled absolute and clean: handleEvent re-resolves  <watch path>/<name>  through Clean *)
Definition spelled (p : string) : bool := rooted p && String.eqb (clean p) p.
Definition in_tree (E : menv) (p : string) : bool := bool_decide (is_Some (ino_of (e_tree E) p)).
Definition u32 (x : N) : bool := x <? 4294967296.

(* Why each premise:
   MMkdir d n      — n a component, d exists, d/n does not (mkdir's own preconditions); d/n spelled absolute and
                     clean (the reader looks the new directory up under Clean(watch path/name)); the kernel has
                     a descriptor left below 2^32 (raw records carry 32-bit descriptors: System.raw_wf).
   MRenameDir      — n, n' components; both parents and the source exist; both parents below ONE watched root
                     (moves into / out of / between trees are excluded by the property); the source is not a
                     root (implied by the previous premise, kept for clarity); nothing exists at or below the
                     target (rename(2) onto an existing directory is excluded; in a parent-closed tree "below"
                     follows from "at"); the target is not inside the source (rename(2): EINVAL); target spelled
                     absolute and clean; the cookie fits 32 bits.
   MFile d n mask  — n a component, d exists, mask one of the plain file notifications.
   MAddRec root    — root exists; roots are not nested (a nested Add re-registers watched directories: another
                     property); "root/..." is recognised as a recursive path with root spelled clean; descriptors.
   MRemoveRec root — root is a watched root, spelled so that Remove(Clean("root/...")) names it.
   No premise about names used earlier: after the repair a name may be used again (ex_hb), and a directory may
   be renamed any number of times before its root is removed (ex_hc). *)
Definition mstep_ok (E : menv) (st : mstep) : bool :=
  match st with
  | MMkdir d n =>
    comp_okb n && in_tree E d && negb (in_tree E (child d n)) && spelled (child d n)
    && u32 (e_next_wd E)
  | MFile d n mask => comp_okb n && in_tree E d && bool_decide (mask ∈ file_masks)
  | MRenameDir d n d' n' =>
    let old := child d n in let new := child d' n' in
    comp_okb n && comp_okb n' && in_tree E d && in_tree E d' && in_tree E old
    && existsb (λ r, is_under d r && is_under d' r) (e_roots E)
    && bool_decide (old ∉ e_roots E)
    && forallb (λ d, negb (is_under d.1 new)) (dirs_of (e_tree E))
    && negb (is_under new old) && spelled new
    && u32 (e_next_cookie E)
  | MAddRec root =>
    in_tree E root
    && forallb (λ r, negb (is_under root r) && negb (is_under r root)) (e_roots E)
    && bool_decide (recursive_path true (root +:+ "/...") = (root, true))
    && u32 (e_next_wd E + N.of_nat (length (under_list (e_tree E) root)))
  | MRemoveRec root =>
    bool_decide (root ∈ e_roots E)
    && bool_decide (recursive_path true (clean (root +:+ "/...")) = (root, true))
  end.

Fixpoint mwf (E : menv) (h : list mstep) : bool :=
  match h with [] => true | st :: h' => mstep_ok E st && mwf (env_step E st) h' end.

(* the initial environment: any tree with one directory per path, nothing watched yet *)
Definition init_ok (E : menv) : bool :=
  bool_decide (e_roots E = [])
  && bool_decide (NoDup (dirs_of (e_tree E)).*1)
  && forallb (λ d, d.2 <? e_next_ino E) (dirs_of (e_tree E))
  && (0 <? e_next_cookie E) && (e_next_wd E =? 1).


(* ------------------------------------------------------------------ *)
(* 2. strings and the subtree relation                                 *)
(* ------------------------------------------------------------------ *)
Lemma slength_app (a b : string) : String.length (a +:+ b) = (String.length a + String.length b)%nat.
Proof. induction a as [|c a IH]; [done|]. change (S (String.length (a +:+ b)) = S (String.length a + String.length b)). by rewrite IH. Qed.

Lemma sapp_eq_nil (a b : string) : a +:+ b = "" → a = "" ∧ b = "".
Proof. destruct a; simpl; [done|discriminate]. Qed.

Lemma app_eq_prefix (a x b y : string) :
  a +:+ x = b +:+ y → (∃ z, a = b +:+ z ∧ y = z +:+ x) ∨ (∃ z, b = a +:+ z ∧ x = z +:+ y).
Proof.
  revert b. induction a as [|c a IH]; intros b Heq.
  - right. exists b. simpl in *. done.
  - destruct b as [|c' b].
    + left. exists (String c a). simpl in *. done.
    + simpl in Heq. injection Heq as -> Heq.
      destruct (IH _ Heq) as [(z & -> & ->)|(z & -> & ->)]; [left|right]; exists z; done.
Qed.

Lemma comp_tail_app x y : comp_tail x → comp_tail y → comp_tail (x +:+ y).
Proof.
  intros [->|(x' & ->)] Hy; [done|]. right. exists (x' +:+ y). done.
Qed.

Lemma comp_tail_prefix z x y : comp_tail y → y = z +:+ x → comp_tail z.
Proof.
  intros [->|(y' & ->)] Heq.
  - symmetry in Heq. apply sapp_eq_nil in Heq as [-> _]. by left.
  - destruct z as [|c z]; [by left|]. simpl in Heq. injection Heq as <- _. right. by exists z.
Qed.

Lemma under_split p r : is_under p r = true ↔ ∃ rest, p = r +:+ rest ∧ comp_tail rest.
Proof.
  rewrite PathLexProofs.is_under_spec. split.
  - intros [->|(rest & ->)].
    + exists "". split; [by rewrite PathLexProofs.sapp_nil_r|by left].
    + exists ("/" +:+ rest). split; [done|right; by exists rest].
  - intros (rest & -> & [->|(rest' & ->)]).
    + left. apply PathLexProofs.sapp_nil_r.
    + right. by exists rest'.
Qed.

Lemma is_under_trans p q r : is_under p q = true → is_under q r = true → is_under p r = true.
Proof.
  intros (r1 & -> & H1)%under_split (r2 & -> & H2)%under_split. apply under_split.
  exists (r2 +:+ r1). split; [apply PathLexProofs.sapp_assoc|by apply comp_tail_app].
Qed.

Lemma is_under_antisym p q : is_under p q = true → is_under q p = true → p = q.
Proof.
  intros (r1 & -> & _)%under_split (r2 & Heq & _)%under_split.
  apply (f_equal String.length) in Heq. rewrite !slength_app in Heq.
  destruct r1; [apply PathLexProofs.sapp_nil_r|]. simpl in Heq. exfalso. lia.
Qed.

Lemma is_under_comparable k a b :
  is_under k a = true → is_under k b = true → is_under a b = true ∨ is_under b a = true.
Proof.
  intros (x & -> & Hx)%under_split (y & Heq & Hy)%under_split.
  apply app_eq_prefix in Heq as [(z & -> & Hz)|(z & -> & Hz)].
  - left. apply under_split. exists z. split; [done|]. exact (comp_tail_prefix z x y Hy Hz).
  - right. apply under_split. exists z. split; [done|]. exact (comp_tail_prefix z y x Hx Hz).
Qed.

Lemma under_child d n r : is_under d r = true → is_under (child d n) r = true.
Proof.
  intros (rest & -> & Hr)%under_split. apply under_split. exists (rest +:+ "/" +:+ n). split.
  - unfold child. by rewrite PathLexProofs.sapp_assoc.
  - apply comp_tail_app; [done|]. right. by exists n.
Qed.

Lemma child_under_self d n : is_under (child d n) d = true.
Proof. apply under_child, is_under_refl. Qed.

Lemma child_under_inv d n r :
  PathLexProofs.no_slash n → is_under (child d n) r = true → child d n = r ∨ is_under d r = true.
Proof.
  intros Hn (rest & Heq & [->|(rest' & ->)])%under_split.
  - left. by rewrite PathLexProofs.sapp_nil_r in Heq.
  - right. unfold child in Heq. apply app_eq_prefix in Heq as [(z & -> & Hz)|(z & -> & Hz)].
    + apply under_split. exists z. split; [done|]. eapply comp_tail_prefix; [|exact Hz]. right. by exists rest'.
    + destruct z as [|c z].
      * rewrite PathLexProofs.sapp_nil_r. apply is_under_refl.
      * simpl in Hz. injection Hz as <- Hz. exfalso. rewrite Hz in Hn.
        by apply PathLexProofs.slash_not_no_slash in Hn.
Qed.

Lemma not_under_child d n : is_under d (child d n) = false.
Proof.
  apply not_true_is_false. intros (rest & Heq & _)%under_split.
  apply (f_equal String.length) in Heq. unfold child in Heq. rewrite !slength_app in Heq. simpl in Heq. lia.
Qed.

Lemma child_ne d n : child d n ≠ d.
Proof.
  intros Heq. pose proof (not_under_child d n) as H. rewrite Heq, is_under_refl in H. done.
Qed.

(* mv *)
Lemma mv_under old new rest : comp_tail rest → mv old new (old +:+ rest) = new +:+ rest.
Proof.
  intros Hr. unfold moved_path.
  assert (is_under (old +:+ rest) old = true) as -> by (apply under_split; eauto).
  apply PathLexProofs.replace_prefix_spec.
Qed.

Lemma mv_outside old new p : is_under p old = false → mv old new p = p.
Proof. intros H. unfold moved_path. by rewrite H. Qed.

Lemma mv_under_new old new p : is_under p old = true → is_under (mv old new p) new = true.
Proof.
  intros (rest & -> & Hr)%under_split. rewrite mv_under by done. apply under_split. eauto.
Qed.

Lemma mv_old old new : mv old new old = new.
Proof.
  rewrite <- (PathLexProofs.sapp_nil_r old) at 2. rewrite mv_under by (by left).
  apply PathLexProofs.sapp_nil_r.
Qed.

Lemma mv_inj old new p q :
  (is_under p old = false → is_under p new = false) →
  (is_under q old = false → is_under q new = false) →
  mv old new p = mv old new q → p = q.
Proof.
  intros Hp Hq Heq.
  destruct (is_under p old) eqn:Ep, (is_under q old) eqn:Eq.
  - apply under_split in Ep as (r1 & -> & H1). apply under_split in Eq as (r2 & -> & H2).
    rewrite !mv_under in Heq by done. apply PathLexProofs.sapp_cancel_l in Heq. by subst.
  - pose proof (mv_under_new old new p Ep) as Hu. rewrite Heq, (mv_outside _ _ q Eq) in Hu.
    rewrite Hq in Hu; done.
  - pose proof (mv_under_new old new q Eq) as Hu. rewrite <- Heq, (mv_outside _ _ p Ep) in Hu.
    rewrite Hp in Hu; done.
  - by rewrite !mv_outside in Heq.
Qed.

(* comp_okb *)
Lemma comp_okb_no_slash n : comp_okb n = true → PathLexProofs.no_slash n.
Proof.
  unfold comp_okb. rewrite !andb_true_iff. intros [[_ Hs] _].
  intros c Hc. rewrite forallb_forall in Hs. apply Hs in Hc.
  apply negb_true_iff, PathLexProofs.is_slash_false in Hc. done.
Qed.

Lemma comp_okb_no_nul n : comp_okb n = true → no_nul n = true.
Proof. unfold comp_okb. rewrite !andb_true_iff. tauto. Qed.

Lemma name_len_nz n : name_len n ≠ 0.
Proof. unfold name_len. generalize (N.of_nat (String.length n) / 16). intros x. lia. Qed.

(* watched *)
Lemma watched_true R p : watched R p = true ↔ ∃ r, r ∈ R ∧ is_under p r = true.
Proof.
  unfold watched. rewrite existsb_exists. split; intros (r & Hr & Hu); exists r; split; try done.
  - by apply elem_of_list_In.
  - by apply elem_of_list_In.
Qed.

(* ------------------------------------------------------------------ *)
(* 3. reverse lookup, the directory oracle                             *)
(* ------------------------------------------------------------------ *)
Lemma rlookup_Some {A} `{EqDecision A} (m : gmap N A) a i : rlookup m a = Some i → m !! i = Some a.
Proof.
  unfold rlookup. destruct (head _) as [[w b]|] eqn:E; [|done]. simpl. intros [= <-].
  apply head_Some_elem_of in E. apply elem_of_list_filter in E as [P E].
  apply bool_decide_unpack in P. simpl in P. subst. by apply elem_of_map_to_list in E.
Qed.

Lemma rlookup_None {A} `{EqDecision A} (m : gmap N A) a : rlookup m a = None → ∀ i, m !! i ≠ Some a.
Proof.
  unfold rlookup. intros H i Hi. apply fmap_None in H. apply head_None in H.
  assert ((i, a) ∈ filter (λ p : N * A, bool_decide (p.2 = a)) (map_to_list m)) as Hin.
  { apply elem_of_list_filter. split; [by apply bool_decide_pack|by apply elem_of_map_to_list]. }
  rewrite H in Hin. by apply elem_of_nil in Hin.
Qed.

Lemma rlookup_inj {A} `{EqDecision A} (m : gmap N A) a i :
  (∀ j, m !! j = Some a → j = i) → m !! i = Some a → rlookup m a = Some i.
Proof.
  intros Hinj Hi. destruct (rlookup m a) as [j|] eqn:E.
  - apply rlookup_Some in E. f_equal. by apply Hinj.
  - exfalso. by apply (rlookup_None _ _ E i).
Qed.

Lemma find_mark_rlookup k i : find_mark k i = rlookup (marks k) i.
Proof. reflexivity. Qed.

Lemma elem_of_dirs_of T p i : (p, i) ∈ dirs_of T ↔ T !! i = Some p.
Proof.
  unfold dirs_of. rewrite elem_of_list_fmap. split.
  - intros ([j q] & [= -> ->] & Hin). by apply elem_of_map_to_list in Hin.
  - intros H. exists (i, p). split; [done|]. by apply elem_of_map_to_list.
Qed.

Lemma lookup_dir_tree cwd T i p :
  (∀ j, T !! j = Some p → j = i) → T !! i = Some p → rooted p = true → clean p = p →
  lookup_dir cwd (dirs_of T) p = (inr i, inr i).
Proof.
  intros Hinj Hi Hr Hc. unfold lookup_dir. rewrite Hr, Hc.
  destruct (list_find _ _) as [[k [q j]]|] eqn:E.
  - apply list_find_Some in E as (Hk & Hq & _). simpl in Hq. subst q.
    apply elem_of_list_lookup_2, elem_of_dirs_of in Hk. by rewrite (Hinj j Hk).
  - apply list_find_None in E. rewrite Forall_forall in E.
    exfalso. apply (E (p, i)); [by apply elem_of_dirs_of|done].
Qed.

(* ------------------------------------------------------------------ *)
(* 4. runs                                                             *)
(* ------------------------------------------------------------------ *)
Definition runs (h : list step) (s : sys) : sys := (run cfgR h s).1.

Lemma runs_nil s : runs [] s = s.
Proof. done. Qed.
Lemma runs_cons st h s : runs (st :: h) s = runs h (sys_step cfgR s st).1.
Proof.
  unfold runs. cbn [run]. destruct (sys_step cfgR s st) as [s1 r]. cbn [fst].
  by destruct (run cfgR h s1).
Qed.
Lemma runs_app a b s : runs (a ++ b) s = runs b (runs a s).
Proof. revert s. induction a as [|st a IH]; intros s; [done|]. cbn [app]. by rewrite !runs_cons, IH. Qed.

Lemma valid_app a b s : valid cfgR (a ++ b) s = valid cfgR a s && valid cfgR b (runs a s).
Proof.
  revert s. induction a as [|st a IH]; intros s; [done|].
  cbn [app valid]. rewrite IH, runs_cons. by rewrite andb_assoc.
Qed.

Lemma mrun_app M a b : mrun M (a ++ b) = mrun (mrun M a) b.
Proof. revert M. induction a as [|st a IH]; intros M; [done|]. cbn. apply IH. Qed.

Lemma expand_all_runs M h : runs (expand_all M h) M.2 = (mrun M h).2.
Proof.
  revert M. induction h as [|st h IH]; intros M; [done|].
  cbn [expand_all mrun]. rewrite runs_app. rewrite <- IH. done.
Qed.

(* ------------------------------------------------------------------ *)
(* 5. single steps of the watcher: register, handle                    *)
(* ------------------------------------------------------------------ *)
Lemma pick_res_same flags (i : N) : pick_res flags (inr i, inr i) = inr i.
Proof. unfold pick_res. by destruct (negb _). Qed.

(* a path that is not listed, resolving to an inode that is not marked: a new watch *)
Lemma register_new W K path flags i :
  t_path W !! path = None → find_mark K i = None → t_wd W !! next_wd K = None →
  t_wd W !! 0 = None → next_wd K ≠ 0 →
  ∃ W', register W K path flags true (inr i, inr i)
          = (W', mkK (<[next_wd K := i]> (marks K)) (N.succ (next_wd K)) (kq K), None)
    ∧ (∀ w, t_wd W' !! w = if decide (w = next_wd K) then Some (mkWatch (next_wd K) flags path true)
                            else t_wd W !! w)
    ∧ (∀ p, t_path W' !! p = if decide (p = path) then Some (next_wd K) else t_path W !! p)
    ∧ w_ring W' = w_ring W.
Proof.
  intros Hpath Hfm Hwd H0 Hnz. unfold register. rewrite Hpath.
  change (None ≫= _) with (@None watch). cbv beta iota zeta.
  rewrite pick_res_same. unfold add_watch. rewrite Hfm. cbv beta iota zeta.
  rewrite Hwd. cbn [w_wd w_path default].
  apply N.eqb_neq in Hnz as Hnz'. rewrite Hnz', String.eqb_refl.
  eexists. split; [reflexivity|]. cbn [set_tables t_wd t_path w_ring]. split_and!; [| |done].
  - intros w. destruct (decide (w = next_wd K)) as [->|Hne].
    + rewrite lookup_delete_ne by done. by rewrite lookup_insert.
    + destruct (decide (w = 0)) as [->|Hne0]; [by rewrite lookup_delete|].
      rewrite lookup_delete_ne by done. by rewrite lookup_insert_ne.
  - intros p. destruct (decide (p = path)) as [->|Hne]; [by rewrite lookup_insert|].
    by rewrite lookup_insert_ne.
Qed.

(* a path that is not listed, resolving to an inode that is marked and listed under another name:
   nothing changes but for a key for that other name *)
Lemma register_existing W K path flags i wd0 e :
  t_path W !! path = None → find_mark K i = Some wd0 → t_wd W !! wd0 = Some e → w_wd e = wd0 →
  wd0 ≠ 0 → t_wd W !! 0 = None → w_path e ≠ path →
  ∃ W', register W K path flags true (inr i, inr i) = (W', K, None)
    ∧ (∀ w, t_wd W' !! w = t_wd W !! w)
    ∧ (∀ p, t_path W' !! p = if decide (p = w_path e) then Some wd0 else t_path W !! p)
    ∧ w_ring W' = w_ring W.
Proof.
  intros Hpath Hfm Hwd Hwe Hnz H0 Hne. unfold register. rewrite Hpath.
  change (None ≫= _) with (@None watch). cbv beta iota zeta.
  rewrite pick_res_same. unfold add_watch. rewrite Hfm. cbv beta iota zeta.
  rewrite Hwd. cbn [default]. rewrite Hwe.
  apply N.eqb_neq in Hnz as Hnz'. rewrite Hnz'.
  apply String.eqb_neq in Hne as Hne'. rewrite Hne'.
  eexists. split; [reflexivity|]. cbn [set_tables t_wd t_path w_ring]. split_and!; [| |done].
  - intros w. destruct (decide (w = 0)) as [->|Hw0]; [by rewrite lookup_delete|].
    rewrite lookup_delete_ne by done.
    destruct (decide (w = wd0)) as [->|Hw]; [by rewrite lookup_insert|]. by rewrite lookup_insert_ne.
  - intros p. destruct (decide (p = path)) as [->|Hp].
    + rewrite lookup_delete. by rewrite decide_False by done.
    + rewrite lookup_delete_ne by done.
      destruct (decide (p = w_path e)) as [->|Hp']; [by rewrite lookup_insert|]. by rewrite lookup_insert_ne.
Qed.

Lemma end_of_watch_plain W K x mask :
  has_all mask IN_DELETE_SELF = false → has_all mask IN_MOVE_SELF = false →
  end_of_watch true W K x mask = (W, K, None, false).
Proof. intros H1 H2. unfold end_of_watch. by rewrite H1, H2. Qed.

Definition plain_mask (mask : N) : Prop :=
  has_any mask IN_Q_OVERFLOW = false ∧ has_any mask IN_IGNORED = false ∧ has_any mask IN_UNMOUNT = false ∧
  has_all mask IN_DELETE_SELF = false ∧ has_all mask IN_MOVE_SELF = false ∧ has_any mask IN_DELETE_SELF = false.

(* a named record for a listed descriptor goes to [deliver] under the name  <watch path>/<record name> *)
Lemma handle_plain W K dirs r x :
  t_wd W !! r_wd r = Some x → r_len r ≠ 0 → plain_mask (r_mask r) →
  handle true "/" W K dirs r = deliver "/" W K dirs x r (w_path x +:+ "/" +:+ r_name r) [] None.
Proof.
  intros Hx Hlen (H1 & H2 & H3 & H4 & H5 & _). unfold handle, by_wd. rewrite Hx, H1, H2, H3.
  apply N.eqb_neq in Hlen. rewrite Hlen. cbn [orb]. by rewrite end_of_watch_plain.
Qed.

Lemma handle_unlisted W K dirs r :
  t_wd W !! r_wd r = None → has_any (r_mask r) IN_Q_OVERFLOW = false → handle true "/" W K dirs r = (W, K, []).
Proof. intros Hx H1. unfold handle, by_wd. by rewrite Hx, H1. Qed.

(* IN_MOVE_SELF on a recursive watch: silent, nothing changes *)
Lemma handle_move_self W K dirs r x :
  t_wd W !! r_wd r = Some x → w_rec x = true → r_mask r = IN_MOVE_SELF →
  handle true "/" W K dirs r = (W, K, []).
Proof.
  intros Hx Hrec Hm. unfold handle, by_wd. rewrite Hx, Hm.
  change (has_any IN_MOVE_SELF IN_Q_OVERFLOW) with false.
  change (has_any IN_MOVE_SELF IN_IGNORED || has_any IN_MOVE_SELF IN_UNMOUNT) with false.
  cbv iota. unfold end_of_watch.
  change (has_all IN_MOVE_SELF IN_DELETE_SELF) with false.
  change (has_all IN_MOVE_SELF IN_MOVE_SELF) with true. cbv iota. by rewrite Hrec.
Qed.

(* an ordinary file notification: delivered, nothing changes *)
Lemma deliver_file W K dirs x r name :
  r_cookie r = 0 → plain_mask (r_mask r) → has_all (r_mask r) IN_ISDIR = false →
  deliver "/" W K dirs x r name [] None
    = (mkW (t_wd W) (t_path W) (w_ring W), K, ev_out (name, translate (r_mask r), "")).
Proof.
  intros Hc (_ & _ & _ & _ & _ & Hds) Hd. unfold deliver. rewrite Hds. cbn [andb].
  rewrite Hc, new_event_no_cookie. cbn [fst snd]. rewrite Hd, andb_false_r. cbn [andb]. done.
Qed.

(* the move-out half of a directory rename: the name goes into the ring, a Rename is delivered *)
Lemma deliver_moved_from W K dirs x r name :
  r_cookie r ≠ 0 → r_mask r = mk_from →
  deliver "/" W K dirs x r name [] None
    = (mkW (t_wd W) (t_path W) (ring_store (w_ring W) (r_cookie r) name), K, [OEv name Rename ""]).
Proof.
  intros Hc Hm. unfold deliver. rewrite Hm.
  change (has_any mk_from IN_DELETE_SELF) with false. cbn [andb].
  rewrite new_event_from by done. cbn [fst snd].
  change (translate mk_from) with Rename.
  change (has_any Rename Create) with false. rewrite andb_false_r. done.
Qed.

(* mkdir below a recursive watch: the new directory is registered, then its Create is delivered *)
Lemma deliver_mkdir W K dirs x r i :
  let name := w_path x +:+ "/" +:+ r_name r in
  w_rec x = true → r_mask r = mk_create → r_cookie r = 0 →
  lookup_dir "/" dirs name = (inr i, inr i) →
  t_path W !! name = None → find_mark K i = None → t_wd W !! next_wd K = None →
  t_wd W !! 0 = None → next_wd K ≠ 0 →
  ∃ W', deliver "/" W K dirs x r name [] None
          = (W', mkK (<[next_wd K := i]> (marks K)) (N.succ (next_wd K)) (kq K), [OEv name Create ""])
    ∧ (∀ w, t_wd W' !! w = if decide (w = next_wd K) then Some (mkWatch (next_wd K) (w_flags x) name true)
                            else t_wd W !! w)
    ∧ (∀ p, t_path W' !! p = if decide (p = name) then Some (next_wd K) else t_path W !! p)
    ∧ w_ring W' = w_ring W.
Proof.
  intros name Hrec Hm Hc Hres Hpath Hfm Hwd H0 Hnz.
  destruct (register_new (mkW (t_wd W) (t_path W) (w_ring W)) K name (w_flags x) i)
    as (W' & Hreg & H1 & H2 & H3); try done.
  exists W'. split; [|done].
  unfold deliver. rewrite Hm. change (has_any mk_create IN_DELETE_SELF) with false. cbn [andb].
  rewrite Hc, new_event_no_cookie. cbn [fst snd]. rewrite Hrec.
  change (translate mk_create) with Create.
  change (has_all mk_create IN_ISDIR) with true. change (has_any Create Create) with true. cbn [andb].
  fold name. rewrite Hres, Hreg. done.
Qed.

(* the move-in half: [register] finds the directory already watched (same inode); the watches at and below the old
   name are re-pathed *)
Lemma deliver_moved_to W K dirs x r i wd0 e from :
  let name := w_path x +:+ "/" +:+ r_name r in
  w_rec x = true → r_mask r = mk_to → r_cookie r ≠ 0 →
  ring_lookup (w_ring W) (r_cookie r) = from → from ≠ "" →
  lookup_dir "/" dirs name = (inr i, inr i) →
  t_path W !! name = None → find_mark K i = Some wd0 → t_wd W !! wd0 = Some e → w_wd e = wd0 →
  wd0 ≠ 0 → t_wd W !! 0 = None → w_path e ≠ name →
  ∃ W4, deliver "/" W K dirs x r name [] None
          = (rewrite_paths W4 (w_wd x) from name, K, [OEv name Create from])
    ∧ (∀ w, t_wd W4 !! w = t_wd W !! w)
    ∧ (∀ p, t_path W4 !! p = if decide (p = w_path e) then Some wd0 else t_path W !! p)
    ∧ w_ring W4 = w_ring W.
Proof.
  intros name Hrec Hm Hc Hring Hfrom Hres Hpath Hfm Hwd Hwe Hnz H0 Hne.
  destruct (register_existing (mkW (t_wd W) (t_path W) (w_ring W)) K name (w_flags x) i wd0 e)
    as (W4 & Hreg & H1 & H2 & H3); try done.
  exists W4. split; [|done].
  rewrite <- Hres in Hreg.
  assert (Ha : has_all (r_mask r) IN_ISDIR = true) by (by rewrite Hm).
  assert (Hb : has_all (r_mask r) IN_MOVED_TO = true) by (by rewrite Hm).
  assert (Hc' : has_all (r_mask r) IN_MOVED_FROM = false) by (by rewrite Hm).
  assert (Hd : has_any (r_mask r) IN_DELETE_SELF = false) by (by rewrite Hm).
  rewrite (rec_renamed_dir_rewritten "/" W K dirs x r name [] None from Hrec Ha Hb Hc' Hd Hc Hring Hfrom
             W4 K None Hreg).
  rewrite Hm. done.
Qed.

(* ------------------------------------------------------------------ *)
(* 6. the table invariant                                              *)
(* ------------------------------------------------------------------ *)
(* [T]: inode ↦ true path; [C]: the inodes that are covered.  Stated on the components so that record eta
   never matters. *)
Definition Tinj (T : tree) : Prop := ∀ i j p, T !! i = Some p → T !! j = Some p → i = j.

Record TI (T : tree) (C : N → Prop)
          (twd : gmap N watch) (tpath : gmap string N) (mk : gmap N N) (nw : N) : Prop := mkTI {
  (* every covered directory has a kernel mark *)
  ti_cov : ∀ i, C i → ∃ wd, mk !! wd = Some i;
  (* every mark is on a covered directory, and watches.wd names it by its TRUE CURRENT PATH *)
  ti_mark : ∀ wd i, mk !! wd = Some i →
     C i ∧ 0 < wd ∧ wd < nw ∧
     ∃ p x, T !! i = Some p ∧ twd !! wd = Some x ∧ w_wd x = wd ∧ w_path x = p ∧ w_rec x = true;
  ti_inj : ∀ wd wd' i, mk !! wd = Some i → mk !! wd' = Some i → wd = wd';
  (* no entry of watches.wd without a mark *)
  ti_wd : ∀ wd x, twd !! wd = Some x → is_Some (mk !! wd);
  (* watches.path is exactly the true paths of the marked directories: nothing stale, nothing dangling *)
  ti_path : ∀ k wd, tpath !! k = Some wd ↔ ∃ i, T !! i = Some k ∧ mk !! wd = Some i;
}.
Definition TInv T C (W : wstate) (K : kernel) : Prop :=
  TI T C (t_wd W) (t_path W) (marks K) (next_wd K).

Section ti_facts.
  Context {T C twd tpath mk nw} (HI : TI T C twd tpath mk nw).

  Lemma ti_twd0 : twd !! 0 = None.
  Proof.
    destruct (twd !! 0) as [x|] eqn:E; [|done].
    destruct (ti_wd _ _ _ _ _ _ HI _ _ E) as [i Hi].
    destruct (ti_mark _ _ _ _ _ _ HI _ _ Hi) as (_ & H0 & _). lia.
  Qed.

  Lemma ti_twd_next w : nw ≤ w → twd !! w = None.
  Proof.
    intros Hw. destruct (twd !! w) as [x|] eqn:E; [|done].
    destruct (ti_wd _ _ _ _ _ _ HI _ _ E) as [i Hi].
    destruct (ti_mark _ _ _ _ _ _ HI _ _ Hi) as (_ & _ & H0 & _). lia.
  Qed.

  Lemma ti_mk_next w : nw ≤ w → mk !! w = None.
  Proof.
    intros Hw. destruct (mk !! w) as [i|] eqn:Hi; [|done].
    destruct (ti_mark _ _ _ _ _ _ HI _ _ Hi) as (_ & _ & H0 & _). lia.
  Qed.

  Lemma ti_find wd i : mk !! wd = Some i → rlookup mk i = Some wd.
  Proof. intros Hi. apply rlookup_inj; [|done]. intros j Hj. by eapply ti_inj. Qed.

  Lemma ti_unmarked i : ¬ C i → rlookup mk i = None.
  Proof.
    intros Hn. destruct (rlookup mk i) as [wd|] eqn:E; [|done].
    apply rlookup_Some in E. by destruct (ti_mark _ _ _ _ _ _ HI _ _ E) as (? & _).
  Qed.

  (* the index is exact: its keys are the paths recorded in watches.wd *)
  Lemma ti_index k wd : tpath !! k = Some wd ↔ ∃ x, twd !! wd = Some x ∧ w_path x = k.
  Proof.
    rewrite (ti_path _ _ _ _ _ _ HI). split.
    - intros (i & Hi & Hm). destruct (ti_mark _ _ _ _ _ _ HI _ _ Hm) as (_ & _ & _ & p & x & Hp & Hx & _ & Hxp & _).
      exists x. split; [done|]. congruence.
    - intros (x & Hx & Hp). destruct (ti_wd _ _ _ _ _ _ HI _ _ Hx) as [i Hm]. exists i. split; [|done].
      destruct (ti_mark _ _ _ _ _ _ HI _ _ Hm) as (_ & _ & _ & p & x' & Hp' & Hx' & _ & Hxp & _). congruence.
  Qed.

  Lemma ti_path_none p i : Tinj T → T !! i = Some p → ¬ C i → tpath !! p = None.
  Proof.
    intros Hinj Hi Hn. destruct (tpath !! p) as [wd|] eqn:E; [|done].
    apply (ti_path _ _ _ _ _ _ HI) in E as (j & Hj & Hm).
    rewrite (Hinj _ _ _ Hi Hj) in Hn. by destruct (ti_mark _ _ _ _ _ _ HI _ _ Hm) as (? & _).
  Qed.
End ti_facts.

Lemma ti_ext T T' C C' twd tpath mk nw :
  (∀ i, C i ↔ C' i) → (∀ i, C i → T' !! i = T !! i) →
  TI T C twd tpath mk nw → TI T' C' twd tpath mk nw.
Proof.
  intros HC HT HI. split.
  - intros i Hi. apply HC in Hi. by eapply ti_cov.
  - intros wd i Hi. destruct (ti_mark _ _ _ _ _ _ HI _ _ Hi) as (Hc & H0 & H1 & p & x & Hp & Hx).
    split_and!; [by apply HC|done|done|]. exists p, x. split; [by rewrite HT|done].
  - by eapply ti_inj.
  - by eapply ti_wd.
  - intros k wd. rewrite (ti_path _ _ _ _ _ _ HI). split.
    + intros (i & Hi & Hm). exists i. split; [|done].
      destruct (ti_mark _ _ _ _ _ _ HI _ _ Hm) as (Hc & _). by rewrite HT.
    + intros (i & Hi & Hm). exists i. split; [|done].
      destruct (ti_mark _ _ _ _ _ _ HI _ _ Hm) as (Hc & _). by rewrite <- HT.
Qed.

(* a new directory is registered *)
Lemma ti_register T C twd tpath mk nw twd' tpath' p i x :
  TI T C twd tpath mk nw → 0 < nw → Tinj T →
  T !! i = Some p → ¬ C i →
  w_wd x = nw → w_path x = p → w_rec x = true →
  (∀ w, twd' !! w = if decide (w = nw) then Some x else twd !! w) →
  (∀ k, tpath' !! k = if decide (k = p) then Some nw else tpath !! k) →
  TI T (λ j, C j ∨ j = i) twd' tpath' (<[nw := i]> mk) (N.succ nw).
Proof.
  intros HI Hnw Hinj HT HC Hx1 Hx2 Hx3 Htwd Htpath.
  assert (Hfresh : mk !! nw = None) by (eapply ti_mk_next; [done|lia]).
  split.
  - intros j [Hj| ->].
    + destruct (ti_cov _ _ _ _ _ _ HI _ Hj) as [wd Hwd]. exists wd.
      rewrite lookup_insert_ne; [done|]. intros <-. congruence.
    + exists nw. by rewrite lookup_insert.
  - intros wd j. destruct (decide (wd = nw)) as [->|Hne].
    + rewrite lookup_insert. intros [= <-]. split_and!; [by right|done|lia|].
      exists p, x. rewrite Htwd, decide_True by done. done.
    + rewrite lookup_insert_ne by done. intros Hj.
      destruct (ti_mark _ _ _ _ _ _ HI _ _ Hj) as (Hc & H0 & H1 & q & y & Hq & Hy).
      split_and!; [by left|done|lia|]. exists q, y. rewrite Htwd, decide_False by done. done.
  - intros wd wd' j. destruct (decide (wd = nw)) as [->|Hne], (decide (wd' = nw)) as [->|Hne'];
      rewrite ?lookup_insert, ?lookup_insert_ne by done; try done.
    + intros [= <-] Hj. by destruct (ti_mark _ _ _ _ _ _ HI _ _ Hj) as (? & _).
    + intros Hj [= <-]. by destruct (ti_mark _ _ _ _ _ _ HI _ _ Hj) as (? & _).
    + by eapply ti_inj.
  - intros wd y. rewrite Htwd. destruct (decide (wd = nw)) as [->|Hne].
    + intros _. by rewrite lookup_insert.
    + intros Hy. rewrite lookup_insert_ne by done. by eapply ti_wd.
  - intros k wd. rewrite Htpath. destruct (decide (k = p)) as [->|Hne].
    + split.
      * intros [= <-]. exists i. by rewrite lookup_insert.
      * intros (j & Hj & Hm). rewrite (Hinj _ _ _ Hj HT) in Hm.
        destruct (decide (wd = nw)) as [->|Hw]; [done|].
        rewrite lookup_insert_ne in Hm by done.
        by destruct (ti_mark _ _ _ _ _ _ HI _ _ Hm) as (? & _).
    + rewrite (ti_path _ _ _ _ _ _ HI). split.
      * intros (j & Hk & Hj). exists j. split; [done|].
        rewrite lookup_insert_ne; [done|]. intros <-. congruence.
      * intros (j & Hk & Hj). exists j. split; [done|].
        destruct (decide (wd = nw)) as [->|Hw]; [|by rewrite lookup_insert_ne in Hj].
        rewrite lookup_insert in Hj. injection Hj as <-. congruence.
Qed.

Lemma rewrite_one_path skip old new x :
  ((w_wd x =? skip) = true → is_under (w_path x) old = false) →
  w_path x ≠ new →
  w_path (rewrite_one skip old new x) = mv old new (w_path x).
Proof.
  intros Hskip Hnew. unfold rewrite_one, moved_path.
  destruct (w_wd x =? skip) eqn:E1.
  - cbn [orb]. by rewrite Hskip.
  - apply String.eqb_neq in Hnew. rewrite Hnew. cbn [orb].
    by destruct (is_under (w_path x) old).
Qed.

(* a directory was renamed inside the tree: the paths in watches.wd AND the keys of watches.path follow *)
Lemma ti_rename T C twd tpath mk nw twd' skip old new :
  TI T C twd tpath mk nw → Tinj T →
  (∀ w, twd' !! w = rewrite_one skip old new <$> twd !! w) →
  (∀ j p, T !! j = Some p → is_under p new = false) →
  (∀ x, twd !! skip = Some x → is_under (w_path x) old = false) →
  TI (mv old new <$> T) C twd' (rekey_paths twd tpath skip old new) mk nw.
Proof.
  intros HI Hinj Htwd Hnonew Hskip.
  assert (Hne : ∀ j p, T !! j = Some p → p ≠ new).
  { intros j p Hp ->. apply Hnonew in Hp. by rewrite is_under_refl in Hp. }
  assert (Htree : ∀ wd x, twd !! wd = Some x → ∃ j, T !! j = Some (w_path x) ∧ mk !! wd = Some j ∧ w_wd x = wd).
  { intros wd x Hx. destruct (ti_wd _ _ _ _ _ _ HI _ _ Hx) as [j Hm]. exists j.
    destruct (ti_mark _ _ _ _ _ _ HI _ _ Hm) as (_ & _ & _ & p & x' & Hp & Hx' & Hw & Hxp & _).
    assert (x' = x) as -> by congruence. rewrite Hxp. done. }
  split.
  - by eapply ti_cov.
  - intros wd j Hj. destruct (ti_mark _ _ _ _ _ _ HI _ _ Hj) as (Hc & H0 & H1 & p & x & Hp & Hx & Hx1 & Hx2 & Hx3).
    split_and!; try done. exists (mv old new p), (rewrite_one skip old new x).
    destruct (rewrite_one_keeps skip old new x) as (Hk1 & _ & Hk3).
    split_and!.
    + by rewrite lookup_fmap, Hp.
    + by rewrite Htwd, Hx.
    + congruence.
    + rewrite <- Hx2. apply rewrite_one_path.
      * intros E%N.eqb_eq. apply Hskip. congruence.
      * rewrite Hx2. by eapply Hne.
    + congruence.
  - by eapply ti_inj.
  - intros wd y. rewrite Htwd. destruct (twd !! wd) as [x|] eqn:Hx; [|done]. intros _. by eapply ti_wd.
  - intros k wd. rewrite (rekey_paths_index twd tpath skip old new).
    + split.
      * intros (x & Hx & Hk). destruct (Htree _ _ Hx) as (j & Hj & Hm & _). exists j. split; [|done].
        by rewrite lookup_fmap, Hj, <- Hk.
      * intros (j & Hj & Hm). rewrite lookup_fmap in Hj.
        destruct (T !! j) as [p|] eqn:Hp; [|done]. injection Hj as <-.
        destruct (ti_mark _ _ _ _ _ _ HI _ _ Hm) as (_ & _ & _ & p' & x & Hp' & Hx & _ & Hxp & _).
        exists x. split; [done|]. congruence.
    + intros k' wd'. by apply (ti_index HI).
    + intros wd' x Hx. destruct (Htree _ _ Hx) as (j & Hj & _ & Hw). unfold repathed.
      destruct (is_under (w_path x) old) eqn:Hu; [|apply andb_false_r]. rewrite andb_true_r.
      apply negb_true_iff, orb_false_iff. split.
      * apply N.eqb_neq. intros Heq. rewrite (Hskip x) in Hu; [done|]. congruence.
      * apply String.eqb_neq. by eapply Hne.
    + intros wd1 wd2 x1 x2 Hx1 Hx2. destruct (Htree _ _ Hx1) as (j1 & Hj1 & _), (Htree _ _ Hx2) as (j2 & Hj2 & _).
      apply mv_inj; intros _; by eapply Hnonew.
Qed.

(* a recursive root is removed *)
Lemma ti_remove T C twd tpath mk nw twd' tpath' mk' root (wds : list N) :
  TI T C twd tpath mk nw →
  (∀ k, tpath' !! k = if is_under k root then None else tpath !! k) →
  (∀ w, w ∈ wds ↔ ∃ k, tpath !! k = Some w ∧ is_under k root = true) →
  (∀ w, twd' !! w = if decide (w ∈ wds) then None else twd !! w) →
  (∀ w, mk' !! w = if decide (w ∈ wds) then None else mk !! w) →
  TI T (λ j, C j ∧ ¬ ∃ p, T !! j = Some p ∧ is_under p root = true) twd' tpath' mk' nw.
Proof.
  intros HI Htpath Hwds Htwd Hmk.
  assert (Hin : ∀ w j, mk !! w = Some j → w ∈ wds ↔ ∃ p, T !! j = Some p ∧ is_under p root = true).
  { intros w j Hj. rewrite Hwds. split.
    - intros (k & Hk & Hu). apply (ti_path _ _ _ _ _ _ HI) in Hk as (j' & Hk & Hj'). exists k.
      split; [congruence|done].
    - intros (p & Hp & Hu). exists p. split; [|done]. apply (ti_path _ _ _ _ _ _ HI). eauto. }
  split.
  - intros j [Hj Hn]. destruct (ti_cov _ _ _ _ _ _ HI _ Hj) as [wd Hwd]. exists wd.
    rewrite Hmk, decide_False; [done|]. intros Hw. apply Hn. by apply (Hin wd).
  - intros wd j. rewrite Hmk. destruct (decide (wd ∈ wds)) as [|Hw]; [done|]. intros Hj.
    destruct (ti_mark _ _ _ _ _ _ HI _ _ Hj) as (Hc & H0 & H1 & p & x & Hp & Hx).
    split_and!; try done.
    + intros Hd. apply Hw. by apply (Hin wd j).
    + exists p, x. rewrite Htwd, decide_False by done. done.
  - intros wd wd' j. rewrite !Hmk. destruct (decide (wd ∈ wds)); [done|]. destruct (decide (wd' ∈ wds)); [done|].
    by eapply ti_inj.
  - intros wd x. rewrite Htwd, Hmk. destruct (decide (wd ∈ wds)); [done|]. by eapply ti_wd.
  - intros k wd. rewrite Htpath. split.
    + destruct (is_under k root) eqn:Hu; [done|]. intros Hk.
      apply (ti_path _ _ _ _ _ _ HI) in Hk as (j & Hk & Hj). exists j. split; [done|].
      rewrite Hmk, decide_False; [done|]. intros (p & Hp & Hu')%(Hin wd j Hj). congruence.
    + intros (j & Hk & Hj). rewrite Hmk in Hj. destruct (decide (wd ∈ wds)) as [|Hw]; [done|].
      destruct (is_under k root) eqn:Hu.
      * exfalso. apply Hw. apply (Hin wd j Hj). eauto.
      * apply (ti_path _ _ _ _ _ _ HI). eauto.
Qed.

(* ------------------------------------------------------------------ *)
(* 7. the kernel side of Remove, and draining the IN_IGNORED records   *)
(* ------------------------------------------------------------------ *)
Lemma rm_all_ok K wds :
  NoDup wds → (∀ w, w ∈ wds → is_Some (marks K !! w)) →
  ∃ K', rm_all K wds = (K', None)
    ∧ (∀ w, marks K' !! w = if decide (w ∈ wds) then None else marks K !! w)
    ∧ next_wd K' = next_wd K ∧ kq K' = kq K ++ (ignored_rec <$> wds).
Proof.
  revert K. induction wds as [|wd wds IH]; intros K Hnd Hall.
  - exists K. cbn [rm_all fmap list_fmap]. rewrite app_nil_r. split_and!; try done.
  - apply NoDup_cons in Hnd as [Hnin Hnd].
    destruct (Hall wd) as [i Hi]; [by left|].
    cbn [rm_all]. unfold rm_watch. rewrite Hi.
    set (K1 := mkK (delete wd (marks K)) (next_wd K) (kq K ++ [ignored_rec wd])).
    destruct (IH K1 Hnd) as (K' & Hrm & Hm & Hn & Hq).
    { intros w Hw. cbn [K1 marks]. rewrite lookup_delete_ne; [apply Hall; by right|]. intros <-. done. }
    exists K'. split_and!; [done| |done|].
    + intros w. rewrite Hm. cbn [K1 marks].
      destruct (decide (w = wd)) as [->|Hne].
      * rewrite lookup_delete. rewrite (decide_True (P := wd ∈ wd :: wds)) by by left. by destruct (decide _).
      * rewrite lookup_delete_ne by done.
        destruct (decide (w ∈ wds)) as [Hw|Hw].
        -- rewrite decide_True; [done|by right].
        -- rewrite decide_False; [done|]. intros [?|?]%elem_of_cons; done.
    + rewrite Hq. cbn [K1 kq fmap list_fmap]. by rewrite <- app_assoc.
Qed.

Lemma sys_step_handle s dirs r q :
  kq (K s) = r :: q →
  (sys_step cfgR s (SHandle dirs)).1 = do_handle cfgR s dirs r q.
Proof. intros Hq. cbn [sys_step]. by rewrite Hq. Qed.

Lemma do_handle_eq s dirs r q W1 K1 o :
  handle true "/" (W s) (mkK (marks (K s)) (next_wd (K s)) q) dirs r = (W1, K1, o) →
  do_handle cfgR s dirs r q = mkSys K1 W1 (outs s ++ o) (handled s ++ [r]).
Proof. intros H. unfold do_handle. cbn [cfgR c_recurse c_cwd]. by rewrite H. Qed.

Lemma drain_ignored dirs wds : ∀ s,
  kq (K s) = ignored_rec <$> wds → (∀ w, w ∈ wds → t_wd (W s) !! w = None) →
  let s' := runs (replicate (length wds) (SHandle dirs)) s in
  W s' = W s ∧ marks (K s') = marks (K s) ∧ next_wd (K s') = next_wd (K s) ∧ kq (K s') = [] ∧ outs s' = outs s.
Proof.
  induction wds as [|wd wds IH]; intros s Hq Hall; [done|].
  cbn [length replicate]. cbv zeta. rewrite runs_cons.
  cbn [fmap list_fmap] in Hq. rewrite (sys_step_handle _ _ _ _ Hq).
  erewrite do_handle_eq; [|apply handle_unlisted; [cbn [ignored_rec r_wd]; apply Hall; by left|done]].
  destruct (IH (mkSys (mkK (marks (K s)) (next_wd (K s)) (ignored_rec <$> wds)) (W s) (outs s ++ [])
                      (handled s ++ [ignored_rec wd]))) as (H1 & H2 & H3 & H4 & H5).
  - done.
  - intros w Hw. apply Hall. by right.
  - split_and!; [by rewrite H1|by rewrite H2|by rewrite H3|done|rewrite H5; cbn [outs]; apply app_nil_r].
Qed.

Lemma valid_handles dirs n s : valid cfgR (replicate n (SHandle dirs)) s = true.
Proof. revert s. induction n as [|n IH]; intros s; [done|]. cbn [replicate valid env_ok andb]. apply IH. Qed.

(* ------------------------------------------------------------------ *)
(* 8. the environment invariant (no watcher involved)                  *)
(* ------------------------------------------------------------------ *)
Record EnvInv (E : menv) : Prop := mkEI {
  ei_inj : Tinj (e_tree E);                                   (* one directory per path *)
  ei_ino : ∀ i p, e_tree E !! i = Some p → i < e_next_ino E;
  ei_nodup : NoDup (e_roots E);
  ei_nonnest : ∀ r r', r ∈ e_roots E → r' ∈ e_roots E → is_under r r' = true → r = r';
  ei_root : ∀ r, r ∈ e_roots E → ∃ i, e_tree E !! i = Some r;
  ei_cookie : 0 < e_next_cookie E;
}.

(* the inodes of the directories below a watched root *)
Definition covP (E : menv) (i : N) : Prop := ∃ p, e_tree E !! i = Some p ∧ watched (e_roots E) p = true.

Lemma one_root E p r r' :
  EnvInv E → r ∈ e_roots E → r' ∈ e_roots E → is_under p r = true → is_under p r' = true → r = r'.
Proof.
  intros HE Hr Hr' Hu Hu'. destruct (is_under_comparable p r r' Hu Hu') as [H|H].
  - by eapply ei_nonnest.
  - symmetry. by eapply ei_nonnest.
Qed.

Lemma in_tree_true E p : in_tree E p = true → ∃ i, e_tree E !! i = Some p.
Proof. intros H%bool_decide_eq_true_1. destruct H as [i Hi]. exists i. by apply rlookup_Some in Hi. Qed.

Lemma in_tree_false E p : in_tree E p = false → ∀ i, e_tree E !! i ≠ Some p.
Proof.
  intros H%bool_decide_eq_false i. apply rlookup_None.
  destruct (ino_of (e_tree E) p) eqn:E1; [|done]. exfalso. apply H. by eexists.
Qed.

Lemma ino_of_tree E i p : EnvInv E → e_tree E !! i = Some p → ino_of (e_tree E) p = Some i.
Proof. intros HE Hi. apply rlookup_inj; [|done]. intros j Hj. by eapply ei_inj. Qed.

Lemma spelled_true p : spelled p = true → rooted p = true ∧ clean p = p.
Proof. unfold spelled. rewrite andb_true_iff, String.eqb_eq. done. Qed.

Lemma elem_of_under_list T root p i : (p, i) ∈ under_list T root ↔ T !! i = Some p ∧ is_under p root = true.
Proof. unfold under_list. rewrite elem_of_list_filter, elem_of_dirs_of. cbn [fst]. tauto. Qed.

Lemma NoDup_dirs_fst T : Tinj T → NoDup (dirs_of T).*1.
Proof.
  intros Hinj. unfold dirs_of. rewrite <- list_fmap_compose.
  apply NoDup_fmap_2_strong; [|apply NoDup_map_to_list].
  intros [i p] [j q] Hi Hj. cbn. intros ->.
  apply elem_of_map_to_list in Hi, Hj. f_equal. by eapply Hinj.
Qed.

Lemma NoDup_dirs_snd T : NoDup (dirs_of T).*2.
Proof.
  unfold dirs_of. rewrite <- list_fmap_compose.
  apply NoDup_fmap_2_strong; [|apply NoDup_map_to_list].
  intros [i p] [j q] Hi Hj. cbn. intros ->.
  apply elem_of_map_to_list in Hi, Hj. f_equal. congruence.
Qed.

Lemma NoDup_filter_fmap {A B} (f : A → B) (P : A → Prop) `{!∀ x, Decision (P x)} (l : list A) :
  NoDup (f <$> l) → NoDup (f <$> filter P l).
Proof.
  induction l as [|a l IH]; [done|]. rewrite fmap_cons, NoDup_cons. intros [Hnin Hnd].
  rewrite filter_cons. destruct (decide _); [|by apply IH].
  rewrite fmap_cons. apply NoDup_cons. split; [|by apply IH].
  intros (b & Hb & Hin)%elem_of_list_fmap. apply elem_of_list_filter in Hin as [_ Hin].
  apply Hnin. apply elem_of_list_fmap. eauto.
Qed.

Lemma forallb_dirs T f : forallb f (dirs_of T) = true → ∀ i p, T !! i = Some p → f (p, i) = true.
Proof.
  rewrite forallb_forall. intros H i p Hi. apply H. apply elem_of_list_In. by apply elem_of_dirs_of.
Qed.

(* decoding the premises of each macro-step *)
Lemma mkdir_ok_inv E d n :
  mstep_ok E (MMkdir d n) = true →
  comp_okb n = true ∧ (∃ i, e_tree E !! i = Some d) ∧ (∀ i, e_tree E !! i ≠ Some (child d n)) ∧
  rooted (child d n) = true ∧ clean (child d n) = child d n ∧ e_next_wd E < 4294967296.
Proof.
  cbn [mstep_ok]. rewrite !andb_true_iff, !negb_true_iff.
  intros [[[[H1 H2] H3] H4] H6].
  apply in_tree_true in H2. pose proof (in_tree_false _ _ H3) as H3'. apply spelled_true in H4 as [H4 H4'].
  apply N.ltb_lt in H6. done.
Qed.

Lemma rename_ok_inv E d n d' n' :
  let old := child d n in let new := child d' n' in
  mstep_ok E (MRenameDir d n d' n') = true →
  comp_okb n = true ∧ comp_okb n' = true ∧
  (∃ i, e_tree E !! i = Some d) ∧ (∃ i, e_tree E !! i = Some d') ∧ (∃ i, e_tree E !! i = Some old) ∧
  (∃ r, r ∈ e_roots E ∧ is_under d r = true ∧ is_under d' r = true) ∧
  old ∉ e_roots E ∧
  (∀ i p, e_tree E !! i = Some p → is_under p new = false) ∧
  is_under new old = false ∧ rooted new = true ∧ clean new = new ∧
  e_next_cookie E < 4294967296.
Proof.
  intros old new. cbn [mstep_ok]. fold old new. rewrite !andb_true_iff, !negb_true_iff.
  intros [[[[[[[[[[H1 H2] H3] H4] H5] H6] H7] H8] H9] H10] H12].
  apply in_tree_true in H3, H4, H5. apply bool_decide_eq_true_1 in H7.
  apply spelled_true in H10 as [H10 H10']. apply N.ltb_lt in H12.
  split_and!; try done.
  - apply existsb_exists in H6 as (r & Hr & Hu). apply andb_true_iff in Hu as [Hu1 Hu2].
    exists r. split; [by apply elem_of_list_In|done].
  - intros i p Hp. pose proof (forallb_dirs _ _ H8 i p Hp) as H. cbn in H. by apply negb_true_iff in H.
Qed.

Lemma addrec_ok_inv E root :
  mstep_ok E (MAddRec root) = true →
  (∃ i, e_tree E !! i = Some root) ∧
  (∀ r, r ∈ e_roots E → is_under root r = false ∧ is_under r root = false) ∧
  recursive_path true (root +:+ "/...") = (root, true) ∧
  e_next_wd E + N.of_nat (length (under_list (e_tree E) root)) < 4294967296.
Proof.
  cbn [mstep_ok]. rewrite !andb_true_iff. intros [[[H1 H2] H3] H4].
  apply in_tree_true in H1. apply bool_decide_eq_true_1 in H3. apply N.ltb_lt in H4.
  split_and!; try done.
  intros r Hr. rewrite forallb_forall in H2. apply elem_of_list_In in Hr. apply H2 in Hr.
  apply andb_true_iff in Hr as [Ha Hb]. by apply negb_true_iff in Ha, Hb.
Qed.

Lemma removerec_ok_inv E root :
  mstep_ok E (MRemoveRec root) = true →
  root ∈ e_roots E ∧ recursive_path true (clean (root +:+ "/...")) = (root, true).
Proof.
  cbn [mstep_ok]. rewrite !andb_true_iff. intros [H1 H2].
  by apply bool_decide_eq_true_1 in H1, H2.
Qed.

Lemma file_ok_inv E d n mask :
  mstep_ok E (MFile d n mask) = true →
  comp_okb n = true ∧ (∃ i, e_tree E !! i = Some d) ∧ mask ∈ file_masks.
Proof.
  cbn [mstep_ok]. rewrite !andb_true_iff. intros [[H1 H2] H3].
  apply in_tree_true in H2. apply bool_decide_eq_true_1 in H3. done.
Qed.

(* a root is not below a directory that is renamed *)
Lemma root_not_under_old E old r0 r :
  EnvInv E → r0 ∈ e_roots E → is_under old r0 = true → old ∉ e_roots E → r ∈ e_roots E →
  is_under r old = false.
Proof.
  intros HE Hr0 Hu Hold Hr. apply not_true_is_false. intros Hru.
  assert (r = r0) as -> by (eapply ei_nonnest; [done..|by eapply is_under_trans]).
  apply Hold. by rewrite (is_under_antisym old r0).
Qed.

Lemma next_ino_fresh E : EnvInv E → e_tree E !! e_next_ino E = None.
Proof.
  intros HE. destruct (e_tree E !! e_next_ino E) eqn:E1; [|done]. apply (ei_ino _ HE) in E1. lia.
Qed.

Lemma envinv_step E st : EnvInv E → mstep_ok E st = true → EnvInv (env_step E st).
Proof.
  intros HE Hok. destruct st as [d n|d n d' n'|d n mask|root|root].
  - (* mkdir *)
    apply mkdir_ok_inv in Hok as (Hn & [id Hd] & Hfresh & _).
    set (p := child d n) in *. pose proof (next_ino_fresh E HE) as Hni.
    split; cbn [env_step e_tree e_roots e_next_ino e_next_cookie]; fold p.
    + intros i j q. destruct (decide (i = e_next_ino E)) as [->|Hi], (decide (j = e_next_ino E)) as [->|Hj];
        rewrite ?lookup_insert, ?lookup_insert_ne by done; try done.
      * intros [= <-] Hq. by apply Hfresh in Hq.
      * intros Hq [= <-]. by apply Hfresh in Hq.
      * by eapply ei_inj.
    + intros i q. destruct (decide (i = e_next_ino E)) as [->|Hi]; [lia|].
      rewrite lookup_insert_ne by done. intros Hq. apply (ei_ino _ HE) in Hq. lia.
    + by eapply ei_nodup.
    + by eapply ei_nonnest.
    + intros r Hr. destruct (ei_root _ HE r Hr) as (i & Hi). exists i.
      rewrite lookup_insert_ne; [done|]. intros <-. congruence.
    + by eapply ei_cookie.
  - (* rename *)
    pose proof (rename_ok_inv E d n d' n' Hok) as
      (Hn & Hn' & [id Hd] & [id' Hd'] & [io Hio] & (r0 & Hr0 & Hu0 & Hu0') & Hnr & Hnonew & Hno & _).
    set (old := child d n) in *. set (new := child d' n') in *.
    assert (Hold0 : is_under old r0 = true) by by apply under_child.
    split; cbn [env_step e_tree e_roots e_next_ino e_next_cookie]; fold old new.
    + intros i j q. rewrite !lookup_fmap.
      destruct (e_tree E !! i) as [pi|] eqn:Ei; [|done]. destruct (e_tree E !! j) as [pj|] eqn:Ej; [|done].
      cbn. intros [= <-] [= Heq]. eapply ei_inj; [done..|]. rewrite Ej. f_equal.
      symmetry. apply (mv_inj old new); [intros _; by eapply Hnonew..|done].
    + intros i q. rewrite lookup_fmap. destruct (e_tree E !! i) as [pi|] eqn:Ei; [|done]. intros _.
      by eapply ei_ino.
    + by eapply ei_nodup.
    + by eapply ei_nonnest.
    + intros r Hr. destruct (ei_root _ HE r Hr) as (i & Hi). exists i.
      rewrite lookup_fmap, Hi. cbn. f_equal. apply mv_outside. exact (root_not_under_old E old r0 r HE Hr0 Hold0 Hnr Hr).
    + pose proof (ei_cookie _ HE). lia.
  - (* file *) done.
  - (* add *)
    apply addrec_ok_inv in Hok as ([ir Hir] & Hnest & _ & _).
    assert (Hnin : root ∉ e_roots E).
    { intros Hr. destruct (Hnest _ Hr) as [H _]. by rewrite is_under_refl in H. }
    split; cbn [env_step e_tree e_roots e_next_ino e_next_cookie].
    + by eapply ei_inj.
    + by eapply ei_ino.
    + apply NoDup_cons. split; [done|by eapply ei_nodup].
    + intros r r' [->|Hr]%elem_of_cons [->|Hr']%elem_of_cons Hu; try done.
      * destruct (Hnest _ Hr') as [H _]. congruence.
      * destruct (Hnest _ Hr) as [_ H]. congruence.
      * by eapply ei_nonnest.
    + intros r [->|Hr]%elem_of_cons; [by exists ir|by eapply ei_root].
    + by eapply ei_cookie.
  - (* remove *)
    split; cbn [env_step e_tree e_roots e_next_ino e_next_cookie].
    + by eapply ei_inj.
    + by eapply ei_ino.
    + apply NoDup_filter. by eapply ei_nodup.
    + intros r r' [_ Hr]%elem_of_list_filter [_ Hr']%elem_of_list_filter. by eapply ei_nonnest.
    + intros r [_ Hr]%elem_of_list_filter. by eapply ei_root.
    + by eapply ei_cookie.
Qed.

(* ---- how the set of covered inodes changes ---- *)
Lemma covP_mkdir E d n i :
  EnvInv E → mstep_ok E (MMkdir d n) = true →
  covP (env_step E (MMkdir d n)) i ↔ covP E i ∨ (watched (e_roots E) d = true ∧ i = e_next_ino E).
Proof.
  intros HE Hok. apply mkdir_ok_inv in Hok as (Hn & [id Hd] & Hfresh & _).
  pose proof (next_ino_fresh E HE) as Hni.
  unfold covP. cbn [env_step e_tree e_roots]. split.
  - intros (p & Hp & Hw). destruct (decide (i = e_next_ino E)) as [->|Hne].
    + right. split; [|done]. rewrite lookup_insert in Hp. injection Hp as <-.
      apply watched_true in Hw as (r & Hr & Hu). apply watched_true. exists r. split; [done|].
      apply child_under_inv in Hu as [Hu|Hu]; [|done|by apply comp_okb_no_slash].
      destruct (ei_root _ HE r Hr) as (j & Hj). rewrite <- Hu in Hj. by apply Hfresh in Hj.
    + left. rewrite lookup_insert_ne in Hp by done. eauto.
  - intros [(p & Hp & Hw)|[Hw ->]].
    + exists p. split; [|done]. rewrite lookup_insert_ne; [done|]. intros <-. congruence.
    + exists (child d n). rewrite lookup_insert. split; [done|].
      apply watched_true in Hw as (r & Hr & Hu). apply watched_true. exists r. split; [done|].
      by apply under_child.
Qed.

Lemma covP_rename E d n d' n' i :
  EnvInv E → mstep_ok E (MRenameDir d n d' n') = true →
  covP (env_step E (MRenameDir d n d' n')) i ↔ covP E i.
Proof.
  intros HE Hok.
  pose proof (rename_ok_inv E d n d' n' Hok) as
    (Hn & Hn' & [id Hd] & [id' Hd'] & [io Hio] & (r0 & Hr0 & Hu0 & Hu0') & Hnr & Hnonew & Hno & _).
  set (old := child d n) in *. set (new := child d' n') in *.
  assert (Hold0 : is_under old r0 = true) by by apply under_child.
  assert (Hnew0 : is_under new r0 = true) by by apply under_child.
  unfold covP. cbn [env_step e_tree e_roots]. fold old new. rewrite lookup_fmap.
  destruct (e_tree E !! i) as [p|] eqn:Hp; cbn; [|split; intros (? & ? & _); done].
  destruct (is_under p old) eqn:Hu.
  - assert (watched (e_roots E) p = true).
    { apply watched_true. exists r0. split; [done|]. by eapply is_under_trans. }
    assert (watched (e_roots E) (mv old new p) = true).
    { apply watched_true. exists r0. split; [done|]. eapply is_under_trans; [by apply mv_under_new|done]. }
    split; intros _; eauto.
  - rewrite mv_outside by done. done.
Qed.

Lemma covP_addrec E root i :
  covP (env_step E (MAddRec root)) i ↔ covP E i ∨ ∃ p, e_tree E !! i = Some p ∧ is_under p root = true.
Proof.
  unfold covP. cbn [env_step e_tree e_roots watched existsb]. split.
  - intros (p & Hp & [Hu|Hw]%orb_true_iff); eauto.
  - intros [(p & Hp & Hw)|(p & Hp & Hu)]; exists p; rewrite orb_true_iff; eauto.
Qed.

Lemma covP_removerec E root i :
  EnvInv E → root ∈ e_roots E →
  covP (env_step E (MRemoveRec root)) i ↔ covP E i ∧ ¬ ∃ p, e_tree E !! i = Some p ∧ is_under p root = true.
Proof.
  intros HE Hroot. unfold covP. cbn [env_step e_tree e_roots]. split.
  - intros (p & Hp & (r & [Hne Hr]%elem_of_list_filter & Hu)%watched_true). split.
    + exists p. split; [done|]. apply watched_true. eauto.
    + intros (p' & Hp' & Hu'). assert (p' = p) as -> by congruence. apply Hne. by eapply one_root.
  - intros [(p & Hp & (r & Hr & Hu)%watched_true) Hn]. exists p. split; [done|].
    apply watched_true. exists r. split; [|done]. apply elem_of_list_filter. split; [|done].
    intros ->. apply Hn. eauto.
Qed.

(* ------------------------------------------------------------------ *)
(* 9. Covered, and what one macro-step does                            *)
(* ------------------------------------------------------------------ *)
Record RingInv (c : N) (R : ringst) : Prop := mkRI {
  ri_wf : ring_wf R;
  ri_old : ∀ s, s ∈ rg R → s.1 < c;          (* every cookie in the ring is older than the next one *)
}.

Record Covered (E : menv) (s : sys) : Prop := mkCov {
  cv_env : EnvInv E;
  cv_tab : TI (e_tree E) (covP E) (t_wd (W s)) (t_path (W s)) (marks (K s)) (next_wd (K s));
  cv_quiet : kq (K s) = [];
  cv_ring : RingInv (e_next_cookie E) (w_ring (W s));
  cv_nwd : next_wd (K s) = e_next_wd E;
  cv_u32 : 0 < e_next_wd E ≤ 4294967296;
}.

Definition ev_outs (l : list event) : list output := (λ e, OEv e.1.1 e.1.2 e.2) <$> l.
Definition results (h : list step) (s : sys) : list api_result := (run cfgR h s).2.

(* the steps that never touch the kernel's marks *)
Definition keeps (st : mstep) : Prop :=
  match st with MRenameDir _ _ _ _ | MFile _ _ _ => True | _ => False end.

Record StepOK (E : menv) (s : sys) (st : mstep) : Prop := mkStepOK {
  so_cov : Covered (env_step E st) (runs (expand (E, s) st) s);
  so_outs : outs (runs (expand (E, s) st) s) = outs s ++ ev_outs (expected E st);
  so_valid : valid cfgR (expand (E, s) st) s = true;
  so_api : Forall (λ r, r = RNil) (results (expand (E, s) st) s);
  so_keep : keeps st → marks (K (runs (expand (E, s) st) s)) = marks (K s);
}.

(* ---- running ---- *)
Lemma results_cons st h s :
  results (st :: h) s = (sys_step cfgR s st).2 :: results h (sys_step cfgR s st).1.
Proof.
  unfold results. cbn [run]. destruct (sys_step cfgR s st) as [s1 r]. cbn [fst snd].
  by destruct (run cfgR h s1).
Qed.
Lemma results_app a b s : results (a ++ b) s = results a s ++ results b (runs a s).
Proof.
  revert s. induction a as [|st a IH]; intros s; [done|].
  cbn [app]. rewrite !results_cons, runs_cons, IH. done.
Qed.
Lemma results_handles dirs n s : Forall (λ r, r = RNil) (results (replicate n (SHandle dirs)) s).
Proof.
  revert s. induction n as [|n IH]; intros s; [constructor|].
  cbn [replicate]. rewrite results_cons. constructor; [|apply IH].
  cbn [sys_step]. by destruct (kq (K s)).
Qed.

Lemma expand_eq E s st :
  expand (E, s) st = emit E s st ++ replicate (length (kq (K (runs (emit E s st) s))))
                                              (SHandle (dirs_of (e_tree (env_step E st)))).
Proof. reflexivity. Qed.

Lemma runs_handle s dirs r q W1 K1 o h :
  kq (K s) = r :: q → handle true "/" (W s) (mkK (marks (K s)) (next_wd (K s)) q) dirs r = (W1, K1, o) →
  runs (SHandle dirs :: h) s = runs h (mkSys K1 W1 (outs s ++ o) (handled s ++ [r])).
Proof. intros Hq Hh. rewrite runs_cons, (sys_step_handle _ _ _ _ Hq). by erewrite do_handle_eq. Qed.

Lemma runs_emit s r h : runs (KEmit r :: h) s = runs h (mkSys (k_emit (K s) r) (W s) (outs s) (handled s)).
Proof. by rewrite runs_cons. Qed.

Lemma valid_emit_cons s r h :
  valid cfgR (KEmit r :: h) s = env_ok s (KEmit r) && valid cfgR h (mkSys (k_emit (K s) r) (W s) (outs s) (handled s)).
Proof. reflexivity. Qed.

Lemma env_ok_emit s wd mask c len n :
  is_Some (marks (K s) !! wd) →
  has_any mask (N.lor IN_IGNORED (N.lor IN_Q_OVERFLOW (N.lor IN_DELETE_SELF IN_UNMOUNT))) = false →
  wd < 4294967296 → mask < 4294967296 → c < 4294967296 → no_nul n = true →
  env_ok s (KEmit (mkRaw wd mask c len n)) = true.
Proof.
  intros Hm Hmask H1 H2 H3 H4. cbn [env_ok r_wd r_mask]. rewrite Hmask. unfold raw_wf. cbn [r_wd r_mask r_cookie r_name].
  rewrite bool_decide_eq_true_2 by done.
  apply N.ltb_lt in H1, H2, H3. by rewrite H1, H2, H3, H4.
Qed.

(* ---- the wd of a directory ---- *)
Lemma wd_of_cov E s i p :
  Covered E s → e_tree E !! i = Some p → watched (e_roots E) p = true →
  ∃ wd x, wd_of E s p = Some wd ∧ marks (K s) !! wd = Some i ∧ t_wd (W s) !! wd = Some x ∧
          w_wd x = wd ∧ w_path x = p ∧ w_rec x = true ∧ 0 < wd ∧ wd < next_wd (K s).
Proof.
  intros HC Hi Hw. pose proof (cv_env _ _ HC) as HE. pose proof (cv_tab _ _ HC) as HI.
  destruct (ti_cov _ _ _ _ _ _ HI i) as [wd Hm]; [by exists p|].
  destruct (ti_mark _ _ _ _ _ _ HI _ _ Hm) as (_ & H0 & H1 & p' & x & Hp' & Hx & Hw1 & Hw2 & Hw3).
  exists wd, x. split_and!; try done.
  - unfold wd_of. rewrite (ino_of_tree E i p HE Hi). cbn. rewrite find_mark_rlookup. by eapply ti_find.
  - congruence.
Qed.

Lemma wd_of_uncov E s i p :
  Covered E s → e_tree E !! i = Some p → watched (e_roots E) p = false → wd_of E s p = None.
Proof.
  intros HC Hi Hw. pose proof (cv_env _ _ HC) as HE. pose proof (cv_tab _ _ HC) as HI.
  unfold wd_of. rewrite (ino_of_tree E i p HE Hi). cbn. rewrite find_mark_rlookup.
  eapply ti_unmarked; [done|]. intros (p' & Hp' & Hw'). congruence.
Qed.

(* ---- masks ---- *)
Definition dead_bits : N := N.lor IN_IGNORED (N.lor IN_Q_OVERFLOW (N.lor IN_DELETE_SELF IN_UNMOUNT)).

Lemma plain_mk_create : plain_mask mk_create. Proof. by repeat split. Qed.
Lemma plain_mk_from : plain_mask mk_from. Proof. by repeat split. Qed.
Lemma plain_mk_to : plain_mask mk_to. Proof. by repeat split. Qed.

Lemma file_mask_facts mask :
  mask ∈ file_masks →
  plain_mask mask ∧ has_all mask IN_ISDIR = false ∧ (translate mask =? 0) = false ∧
  mask < 4294967296 ∧ has_any mask dead_bits = false.
Proof.
  unfold file_masks. intros H. repeat (apply elem_of_cons in H as [->|H]); [..|by apply elem_of_nil in H];
    (split_and!; [by repeat split|done|done|done|done]).
Qed.

Lemma child_nonempty d n : child d n ≠ "".
Proof. unfold child. destruct d; discriminate. Qed.

Lemma omap_ev_outs l :
  omap (λ o, match o with OEv n op f => Some (n, op, f) | _ => None end) (ev_outs l) = l.
Proof. unfold ev_outs. induction l as [|[[a b] c] l IH]; [done|]. simpl. f_equal. exact IH. Qed.
Lemma omap_err_outs l :
  omap (λ o, match o with OErr e => Some e | _ => None end) (ev_outs l) = [].
Proof. unfold ev_outs. induction l as [|[[a b] c] l IH]; [done|]. simpl. exact IH. Qed.

Lemma outs_evs_errs s s' l :
  outs s' = outs s ++ ev_outs l → evs s' = evs s ++ l ∧ errs s' = errs s.
Proof.
  intros H. unfold evs, errs. rewrite H, !omap_app, omap_ev_outs, omap_err_outs, app_nil_r. done.
Qed.

Lemma stepok_intro E s st h s' :
  expand (E, s) st = h → runs h s = s' → (keeps st → marks (K s') = marks (K s)) →
  Covered (env_step E st) s' → outs s' = outs s ++ ev_outs (expected E st) →
  valid cfgR h s = true → Forall (λ r, r = RNil) (results h s) → StepOK E s st.
Proof. intros <- <- H0 H1 H2 H3 H4. by split. Qed.

(* one notification for a listed, live descriptor: queued, then handled *)
Lemma one_event s dirs r W1 K1 o :
  kq (K s) = [] →
  handle true "/" (W s) (mkK (marks (K s)) (next_wd (K s)) []) dirs r = (W1, K1, o) →
  env_ok s (KEmit r) = true →
  let h := [KEmit r; SHandle dirs] in
  runs h s = mkSys K1 W1 (outs s ++ o) (handled s ++ [r]) ∧ valid cfgR h s = true ∧
  Forall (λ r, r = RNil) (results h s) ∧
  length (kq (K (runs [KEmit r] s))) = 1%nat.
Proof.
  intros Hq Hh Hok h. unfold h. split_and!.
  - rewrite runs_emit. erewrite runs_handle; [by rewrite runs_nil| |exact Hh]. cbn. by rewrite Hq.
  - cbn [valid]. rewrite Hok. done.
  - rewrite !results_cons. repeat constructor. cbn [sys_step fst K k_emit kq]. by rewrite Hq.
  - rewrite runs_emit, runs_nil. cbn. by rewrite Hq.
Qed.

(* ---- a file operation ---- *)
Lemma step_file E s d n mask :
  Covered E s → mstep_ok E (MFile d n mask) = true → StepOK E s (MFile d n mask).
Proof.
  intros HC Hok. pose proof (cv_env _ _ HC) as HE. apply file_ok_inv in Hok as (Hn & [id Hd] & Hmask).
  destruct (file_mask_facts _ Hmask) as (Hplain & Hisdir & Htr & Hlt & Hdead).
  pose proof (expand_eq E s (MFile d n mask)) as Hex. cbn [emit env_step] in Hex. unfold emit_on in Hex.
  destruct (watched (e_roots E) d) eqn:Hw.
  - destruct (wd_of_cov E s id d HC Hd Hw) as (wd & x & Hwd & Hm & Hx & Hx1 & Hx2 & Hx3 & H0 & H1).
    rewrite Hwd in Hex. set (r := mkRaw wd mask 0 (name_len n) n) in *.
    assert (Hh : handle true "/" (W s) (mkK (marks (K s)) (next_wd (K s)) []) (dirs_of (e_tree E)) r
                 = (mkW (t_wd (W s)) (t_path (W s)) (w_ring (W s)), mkK (marks (K s)) (next_wd (K s)) [],
                    [OEv (child d n) (translate mask) ""])).
    { rewrite (handle_plain _ _ _ r x); [|done|apply name_len_nz|done].
      rewrite deliver_file; [|done..]. cbn [r_name r_mask r]. rewrite Hx2. unfold ev_out. by rewrite Htr. }
    assert (Hok : env_ok s (KEmit r) = true).
    { pose proof (cv_nwd _ _ HC). pose proof (cv_u32 _ _ HC).
      apply env_ok_emit; [by eexists|exact Hdead|lia|done|lia|by apply comp_okb_no_nul]. }
    destruct (one_event s _ r _ _ _ (cv_quiet _ _ HC) Hh Hok) as (Hrun & Hval & Hapi & Hlen).
    rewrite Hlen in Hex. cbn [replicate app] in Hex.
    eapply stepok_intro; [exact Hex|exact Hrun|done| | |exact Hval|exact Hapi].
    + split; cbn [K W marks next_wd kq t_wd t_path w_ring env_step]; try apply HC. done.
    + cbn [outs expected]. by rewrite Hw.
  - rewrite (wd_of_uncov E s id d HC Hd Hw) in Hex. cbn [app] in Hex. rewrite runs_nil, (cv_quiet _ _ HC) in Hex.
    cbn [length replicate] in Hex.
    eapply stepok_intro; [exact Hex|apply runs_nil|done| | |done|constructor].
    + done.
    + cbn [expected]. rewrite Hw. cbn. by rewrite app_nil_r.
Qed.

(* ---- mkdir ---- *)
Lemma step_mkdir E s d n :
  Covered E s → mstep_ok E (MMkdir d n) = true → StepOK E s (MMkdir d n).
Proof.
  intros HC Hok. pose proof (cv_env _ _ HC) as HE. pose proof (cv_tab _ _ HC) as HI.
  pose proof (envinv_step E _ HE Hok) as HE'. pose proof (covP_mkdir E d n) as Hcov.
  pose proof (mkdir_ok_inv _ _ _ Hok) as (Hn & [id Hd] & Hfresh & Hroot & Hclean & Hu32).
  pose proof (next_ino_fresh E HE) as Hni.
  pose proof (expand_eq E s (MMkdir d n)) as Hex. cbn [emit] in Hex. unfold emit_on in Hex.
  set (E' := env_step E (MMkdir d n)) in *. set (p := child d n) in *. set (ni := e_next_ino E) in *.
  assert (HT' : e_tree E' = <[ni := p]> (e_tree E)) by done.
  assert (Hnc : ¬ covP E ni) by (intros (q & Hq & _); congruence).
  (* the tables, seen against the new tree *)
  assert (HI' : TI (e_tree E') (covP E) (t_wd (W s)) (t_path (W s)) (marks (K s)) (next_wd (K s))).
  { eapply ti_ext; [done| |exact HI]. intros i (q & Hq & _). rewrite HT', lookup_insert_ne; [done|]. intros <-. congruence. }
  destruct (watched (e_roots E) d) eqn:Hw.
  - destruct (wd_of_cov E s id d HC Hd Hw) as (wd & x & Hwd & Hm & Hx & Hx1 & Hx2 & Hx3 & H0 & H1).
    rewrite Hwd in Hex. set (r := mkRaw wd mk_create 0 (name_len n) n) in *.
    pose proof (cv_nwd _ _ HC) as Hnwd. pose proof (cv_u32 _ _ HC) as Hb.
    set (K0 := mkK (marks (K s)) (next_wd (K s)) []).
    destruct (deliver_mkdir (W s) K0 (dirs_of (e_tree E')) x r ni) as (W' & Hdel & Htwd & Htpath & Hring); try done.
    { cbn [r_name r]. rewrite Hx2. fold p. apply lookup_dir_tree; try done.
      - intros j Hj. eapply (ei_inj _ HE'); [exact Hj|]. by rewrite HT', lookup_insert.
      - by rewrite HT', lookup_insert. }
    { cbn [r_name r]. rewrite Hx2. fold p. eapply (ti_path_none HI'); [apply HE'| |exact Hnc].
      by rewrite HT', lookup_insert. }
    { rewrite find_mark_rlookup. cbn [K0 marks]. by eapply (ti_unmarked HI). }
    { cbn [K0 next_wd]. eapply (ti_twd_next HI). lia. }
    { by eapply (ti_twd0 HI). }
    { cbn [K0 next_wd]. lia. }
    cbn [r_name r] in Hdel, Htwd, Htpath. rewrite Hx2 in Hdel, Htwd, Htpath. fold p in Hdel, Htwd, Htpath.
    cbn [K0 marks next_wd kq] in Hdel, Htwd, Htpath.
    assert (Hh : handle true "/" (W s) K0 (dirs_of (e_tree E')) r
                 = (W', mkK (<[next_wd (K s) := ni]> (marks (K s))) (N.succ (next_wd (K s))) [], [OEv p Create ""])).
    { rewrite (handle_plain _ _ _ r x); [|done|apply name_len_nz|apply plain_mk_create].
      cbn [r_name r]. rewrite Hx2. exact Hdel. }
    assert (Hok' : env_ok s (KEmit r) = true).
    { apply env_ok_emit; [by eexists|done|lia|done|lia|by apply comp_okb_no_nul]. }
    destruct (one_event s _ r _ _ _ (cv_quiet _ _ HC) Hh Hok') as (Hrun & Hval & Hapi & Hlen).
    rewrite Hlen in Hex. cbn [replicate app] in Hex.
    eapply stepok_intro; [exact Hex|exact Hrun|by intros []| | |exact Hval|exact Hapi].
    + split; cbn [K W marks next_wd kq]; try done.
      * assert (Hpos : 0 < next_wd (K s)) by lia.
        assert (HTni : e_tree E' !! ni = Some p) by (by rewrite HT', lookup_insert).
        eapply ti_ext; [| |exact (ti_register _ _ _ _ _ _ _ _ p ni (mkWatch (next_wd (K s)) (w_flags x) p true)
                                    HI' Hpos (ei_inj _ HE') HTni Hnc eq_refl eq_refl eq_refl Htwd Htpath)].
        -- intros i. cbv beta. fold E'. rewrite (Hcov i HE Hok). split; [intros [?|?]; auto|intros [?|[_ ?]]; auto].
        -- done.
      * rewrite Hring. apply HC.
      * cbn [E' env_step e_next_wd]. rewrite Hw. by rewrite Hnwd.
      * cbn [E' env_step e_next_wd]. rewrite Hw. lia.
    + cbn [outs expected]. by rewrite Hw.
  - rewrite (wd_of_uncov E s id d HC Hd Hw) in Hex. cbn [app] in Hex. rewrite runs_nil, (cv_quiet _ _ HC) in Hex.
    cbn [length replicate] in Hex.
    eapply stepok_intro; [exact Hex|apply runs_nil|by intros []| | |done|constructor].
    + split; try apply HC; try done.
      * eapply ti_ext; [| |exact HI'].
        -- intros i. fold E'. rewrite (Hcov i HE Hok). split; [auto|intros [?|[? _]]; done].
        -- done.
      * cbn [E' env_step e_next_wd]. rewrite Hw. apply HC.
      * cbn [E' env_step e_next_wd]. rewrite Hw. apply HC.
    + cbn [expected]. rewrite Hw. cbn. by rewrite app_nil_r.
Qed.

(* ---- recursive Add ---- *)
Lemma add_walk_ok T flags (l : list (string * N)) : ∀ (C : N → Prop) W K,
  TI T C (t_wd W) (t_path W) (marks K) (next_wd K) → 0 < next_wd K → Tinj T →
  NoDup l.*2 → (∀ p i, (p, i) ∈ l → T !! i = Some p ∧ ¬ C i) →
  ∃ W' K', add_walk W K flags true (walk_arg l) = (W', K', None) ∧
    TI T (λ j, C j ∨ j ∈ l.*2) (t_wd W') (t_path W') (marks K') (next_wd K') ∧
    kq K' = kq K ∧ w_ring W' = w_ring W ∧ next_wd K' = next_wd K + N.of_nat (length l).
Proof.
  induction l as [|[p i] l IH]; intros C W K HI Hpos Hinj Hnd Hall.
  - exists W, K. cbn [walk_arg fmap list_fmap add_walk length]. split_and!; try done; [|lia].
    eapply ti_ext; [| |exact HI]; [|done]. intros j. split; [auto|]. intros [?|Hj]; [done|]. by apply elem_of_nil in Hj.
  - rewrite fmap_cons in Hnd. apply NoDup_cons in Hnd as [Hnin Hnd]. cbn [snd] in Hnin.
    destruct (Hall p i) as [Hp Hnc]; [by left|].
    destruct (register_new W K p flags i) as (W1 & Hreg & Htwd & Htpath & Hring).
    { by eapply (ti_path_none HI). }
    { rewrite find_mark_rlookup. by eapply (ti_unmarked HI). }
    { eapply (ti_twd_next HI). lia. }
    { by eapply (ti_twd0 HI). }
    { lia. }
    set (K1 := mkK (<[next_wd K := i]> (marks K)) (N.succ (next_wd K)) (kq K)) in *.
    assert (HI1 : TI T (λ j, C j ∨ j = i) (t_wd W1) (t_path W1) (marks K1) (next_wd K1)).
    { exact (ti_register _ _ _ _ _ _ _ _ p i (mkWatch (next_wd K) flags p true)
               HI Hpos Hinj Hp Hnc eq_refl eq_refl eq_refl Htwd Htpath). }
    destruct (IH _ W1 K1 HI1) as (W' & K' & Hadd & HI' & Hq & Hr & Hn).
    { cbn [K1 next_wd]. lia. }
    { done. }
    { done. }
    { intros p' i' Hin. destruct (Hall p' i') as [Hp' Hnc']; [by right|]. split; [done|].
      intros [?| ->]; [done|]. apply Hnin. apply elem_of_list_fmap. by exists (p', i). }
    exists W', K'. split_and!.
    + cbn [walk_arg fmap list_fmap add_walk fst snd]. rewrite Hreg. exact Hadd.
    + eapply ti_ext; [| |exact HI']; [|done]. intros j. rewrite fmap_cons, elem_of_cons. cbn [snd]. tauto.
    + by rewrite Hq.
    + by rewrite Hr, Hring.
    + rewrite Hn. cbn [K1 next_wd length]. lia.
Qed.

Lemma step_addrec E s root :
  Covered E s → mstep_ok E (MAddRec root) = true → StepOK E s (MAddRec root).
Proof.
  intros HC Hok. pose proof (cv_env _ _ HC) as HE. pose proof (cv_tab _ _ HC) as HI.
  pose proof (envinv_step E _ HE Hok) as HE'.
  pose proof (addrec_ok_inv _ _ Hok) as ([ir Hir] & Hnest & Hrp & Hu32).
  pose proof (cv_nwd _ _ HC) as Hnwd. pose proof (cv_u32 _ _ HC) as Hb.
  set (l := walk_of (e_tree E) root).
  assert (Hperm : l ≡ₚ under_list (e_tree E) root) by apply merge_sort_Permutation.
  assert (Hl : ∀ p i, (p, i) ∈ l ↔ e_tree E !! i = Some p ∧ is_under p root = true).
  { intros p i. rewrite Hperm. apply elem_of_under_list. }
  assert (Hnd : NoDup l.*2).
  { rewrite Hperm. unfold under_list. apply NoDup_filter_fmap, NoDup_dirs_snd. }
  destruct (add_walk_ok (e_tree E) (request_flags add_ops false) l (covP E) (W s) (K s))
    as (W' & K' & Hadd & HI' & Hq & Hr & Hn); try done; [lia|apply HE| |].
  { intros p i [Hp Hu]%Hl. split; [done|]. intros (p' & Hp' & (r & Hr & Hu')%watched_true).
    assert (p' = p) as -> by congruence. destruct (Hnest r Hr) as [H1 H2].
    destruct (is_under_comparable p r root Hu' Hu); congruence. }
  pose proof (expand_eq E s (MAddRec root)) as Hex. cbn [emit] in Hex. fold l in Hex.
  set (st := SAdd (root +:+ "/...") add_ops false (walk_arg l)) in *.
  assert (Hstep : sys_step cfgR s st = (mkSys K' W' (outs s) (handled s), RNil)).
  { cbn [st sys_step cfgR c_recurse]. rewrite Hrp. by rewrite Hadd. }
  assert (Hrun : runs [st] s = mkSys K' W' (outs s) (handled s)).
  { by rewrite runs_cons, Hstep, runs_nil. }
  rewrite Hrun in Hex. cbn [K] in Hex. rewrite Hq, (cv_quiet _ _ HC) in Hex. cbn [length replicate] in Hex.
  rewrite app_nil_r in Hex.
  eapply stepok_intro; [exact Hex|exact Hrun|by intros []| | | |].
  - split; cbn [K W]; try done.
    + change (e_tree (env_step E (MAddRec root))) with (e_tree E).
      eapply ti_ext; [| |exact HI']; [|done]. intros j. rewrite covP_addrec. cbv beta.
      split; (intros [?|H]; [by left|right]).
      * apply elem_of_list_fmap in H as ([p i] & -> & Hin). apply Hl in Hin. cbn [snd]. eauto.
      * destruct H as (p & Hp & Hu). apply elem_of_list_fmap. exists (p, j). split; [done|]. by apply Hl.
    + by rewrite Hq, (cv_quiet _ _ HC).
    + rewrite Hr. apply HC.
    + cbn [env_step e_next_wd]. rewrite Hn, Hnwd. f_equal. f_equal. by rewrite Hperm.
    + cbn [env_step e_next_wd]. lia.
  - cbn [outs expected ev_outs fmap list_fmap]. by rewrite app_nil_r.
  - cbn [valid env_ok st]. done.
  - rewrite results_cons, Hstep. cbn [snd]. repeat constructor.
Qed.

(* ---- recursive Remove ---- *)
Lemma step_removerec E s root :
  Covered E s → mstep_ok E (MRemoveRec root) = true → StepOK E s (MRemoveRec root).
Proof.
  intros HC Hok. pose proof (cv_env _ _ HC) as HE. pose proof (cv_tab _ _ HC) as HI.
  pose proof (envinv_step E _ HE Hok) as HE'.
  pose proof (removerec_ok_inv _ _ Hok) as (Hroot & Hrp).
  destruct (ei_root _ HE root Hroot) as [ir Hir].
  assert (Hcr : covP E ir).
  { exists root. split; [done|]. apply watched_true. exists root. split; [done|apply is_under_refl]. }
  destruct (ti_cov _ _ _ _ _ _ HI ir Hcr) as [wd Hm].
  destruct (ti_mark _ _ _ _ _ _ HI wd ir Hm) as (_ & _ & _ & p & x & Hp & Hx & Hx1 & Hx2 & Hx3).
  assert (p = root) as -> by congruence.
  assert (Htp : t_path (W s) !! root = Some wd) by (apply (ti_path _ _ _ _ _ _ HI); eauto).
  destruct (rec_remove_exact (W s) (clean (root +:+ "/...")) root true wd x Hrp Htp Hx Hx3)
    as (W' & wds & Hrm & Hpath & Hwds & Hperm & Hwd & Hring).
  assert (Hwds' : ∀ w, w ∈ wds ↔ ∃ k, t_path (W s) !! k = Some w ∧ is_under k root = true).
  { intros w. rewrite Hwds. split.
    - intros [->|(k & Hk & _ & Hu)]; [|by eauto]. exists root. split; [done|apply is_under_refl].
    - intros (k & Hk & Hu). destruct (decide (k = root)) as [->|Hne]; [left; congruence|right; eauto]. }
  assert (Hmarked : ∀ w, w ∈ wds → is_Some (marks (K s) !! w)).
  { intros w (k & Hk & _)%Hwds'. apply (ti_path _ _ _ _ _ _ HI) in Hk as (i & _ & Hi). eauto. }
  assert (Hkeyinj : ∀ k1 k2 w, t_path (W s) !! k1 = Some w → t_path (W s) !! k2 = Some w → k1 = k2).
  { intros k1 k2 w H1 H2. apply (ti_index HI) in H1 as (x1 & ? & ?), H2 as (x2 & ? & ?). congruence. }
  assert (Hnd : NoDup wds).
  { rewrite Hperm. apply NoDup_cons. split.
    - intros ([k w] & Heq & Hin)%elem_of_list_fmap. cbn [snd] in Heq. subst w.
      apply elem_of_list_filter in Hin as [[Hne _] Hin]. apply elem_of_map_to_list in Hin. cbn [fst] in Hne.
      apply Hne. by eapply Hkeyinj.
    - apply NoDup_fmap_2_strong; [|apply NoDup_filter, NoDup_map_to_list].
      intros [k1 w1] [k2 w2] [_ H1]%elem_of_list_filter [_ H2]%elem_of_list_filter Heq.
      cbn [snd] in Heq. subst w2. apply elem_of_map_to_list in H1, H2. f_equal. by eapply Hkeyinj. }
  destruct (rm_all_ok (K s) wds Hnd Hmarked) as (K' & Hrmall & Hmk & Hnw & Hkq).
  set (st := SRemove (root +:+ "/...")).
  set (dirs := dirs_of (e_tree (env_step E (MRemoveRec root)))).
  set (s1 := mkSys K' W' (outs s) (handled s)).
  assert (Hstep : sys_step cfgR s st = (s1, RNil)).
  { cbn [st sys_step cfgR c_recurse]. unfold remove. by rewrite Hrm, Hrmall. }
  assert (Hrun1 : runs [st] s = s1) by (by rewrite runs_cons, Hstep, runs_nil).
  assert (Hq1 : kq (K s1) = ignored_rec <$> wds).
  { cbn [s1 K]. by rewrite Hkq, (cv_quiet _ _ HC). }
  destruct (drain_ignored dirs wds s1 Hq1) as (D1 & D2 & D3 & D4 & D5).
  { intros w Hw. cbn [s1 W]. rewrite Hwd. by rewrite decide_True. }
  pose proof (expand_eq E s (MRemoveRec root)) as Hex. cbn [emit] in Hex. fold st dirs in Hex.
  rewrite Hrun1, Hq1, fmap_length in Hex.
  eapply stepok_intro; [exact Hex|by rewrite runs_app, Hrun1|by intros []| | | |].
  - split; try done.
    + rewrite D1, D2, D3. cbn [s1 W K]. rewrite Hnw.
      change (e_tree (env_step E (MRemoveRec root))) with (e_tree E).
      eapply ti_ext; [| |exact (ti_remove _ _ _ _ _ _ _ _ _ root wds HI Hpath Hwds' Hwd Hmk)]; [|done].
      intros j. by rewrite covP_removerec.
    + rewrite D1. cbn [s1 W env_step e_next_cookie]. rewrite Hring. apply HC.
    + rewrite D3. cbn [s1 K env_step e_next_wd]. rewrite Hnw. apply HC.
    + apply HC.
  - rewrite D5. cbn [s1 outs expected ev_outs fmap list_fmap]. by rewrite app_nil_r.
  - rewrite valid_app. cbn [valid env_ok st andb]. apply valid_handles.
  - rewrite results_app. apply Forall_app. split; [|apply results_handles].
    rewrite results_cons, Hstep. repeat constructor.
Qed.

(* ---- rename of a directory inside a watched tree ---- *)
Lemma ring_after_store c R p :
  RingInv c R → RingInv (N.succ c) (ring_store R c p) ∧ ring_lookup (ring_store R c p) c = p.
Proof.
  intros [Hwf Hold]. split; [split|].
  - by apply ring_store_wf.
  - intros s Hs. unfold ring_store in Hs. cbn [rg] in Hs.
    apply elem_of_list_insert_inv in Hs as [->|Hs]; [cbn; lia|]. apply Hold in Hs. lia.
  - eapply holds_lookup. apply holds_first_store; [done|]. intros s Hs. apply Hold in Hs. lia.
Qed.

Lemma step_rename E s d n d' n' :
  Covered E s → mstep_ok E (MRenameDir d n d' n') = true → StepOK E s (MRenameDir d n d' n').
Proof.
  intros HC Hok. pose proof (cv_env _ _ HC) as HE. pose proof (cv_tab _ _ HC) as HI.
  pose proof (envinv_step E _ HE Hok) as HE'.
  pose proof (rename_ok_inv E d n d' n' Hok) as
    (Hn & Hn' & [id Hd] & [id' Hd'] & [io Hio] & (r0 & Hr0 & Hu0 & Hu0') & Hnr & Hnonew & Hno & Hroot & Hclean & Hck).
  pose proof (cv_nwd _ _ HC) as Hnwd. pose proof (cv_u32 _ _ HC) as Hb. pose proof (cv_quiet _ _ HC) as Hquiet.
  pose proof (ei_cookie _ HE) as Hcpos.
  set (old := child d n) in *. set (new := child d' n') in *. set (c := e_next_cookie E) in *.
  set (E' := env_step E (MRenameDir d n d' n')) in *.
  assert (HT' : e_tree E' = mv old new <$> e_tree E) by done.
  set (dirs := dirs_of (e_tree E')).
  assert (Hold0 : is_under old r0 = true) by by apply under_child.
  assert (Hw1 : watched (e_roots E) d = true) by (apply watched_true; eauto).
  assert (Hw2 : watched (e_roots E) d' = true) by (apply watched_true; eauto).
  assert (Hw3 : watched (e_roots E) old = true) by (apply watched_true; eauto).
  destruct (wd_of_cov E s id d HC Hd Hw1) as (wd1 & x1 & Hwd1 & Hm1 & Hx1 & Hx1w & Hx1p & Hx1r & H01 & H11).
  destruct (wd_of_cov E s id' d' HC Hd' Hw2) as (wd2 & x2 & Hwd2 & Hm2 & Hx2 & Hx2w & Hx2p & Hx2r & H02 & H12).
  destruct (wd_of_cov E s io old HC Hio Hw3) as (wd3 & x3 & Hwd3 & Hm3 & Hx3 & Hx3w & Hx3p & Hx3r & H03 & H13).
  set (r1 := mkRaw wd1 mk_from c (name_len n) n).
  set (r2 := mkRaw wd2 mk_to c (name_len n') n').
  set (r3 := mkRaw wd3 IN_MOVE_SELF 0 0 "").
  set (mk := marks (K s)) in *. set (nw := next_wd (K s)) in *.
  (* the three notifications are queued *)
  set (s0 := mkSys (mkK mk nw [r1; r2; r3]) (W s) (outs s) (handled s)).
  assert (Hemit : runs [KEmit r1; KEmit r2; KEmit r3] s = s0).
  { rewrite !runs_emit, runs_nil. unfold s0, k_emit. cbn [K marks next_wd kq W outs handled]. by rewrite Hquiet. }
  pose proof (expand_eq E s (MRenameDir d n d' n')) as Hex. cbn [emit] in Hex. unfold emit_on in Hex.
  fold old c in Hex. rewrite Hwd1, Hwd2, Hwd3 in Hex. fold r1 r2 r3 E' dirs in Hex.
  change ([KEmit r1] ++ [KEmit r2] ++ [KEmit r3]) with [KEmit r1; KEmit r2; KEmit r3] in Hex.
  rewrite Hemit in Hex. cbn [s0 K kq length replicate] in Hex.
  (* 1: the move-out half *)
  set (R := w_ring (W s)). destruct (ring_after_store c R old (cv_ring _ _ HC)) as [HR1 Hlook].
  set (W1 := mkW (t_wd (W s)) (t_path (W s)) (ring_store R c old)).
  assert (Hh1 : handle true "/" (W s) (mkK mk nw [r2; r3]) dirs r1
                = (W1, mkK mk nw [r2; r3], [OEv old Rename ""])).
  { rewrite (handle_plain _ _ _ r1 x1); [|done|apply name_len_nz|apply plain_mk_from].
    unfold r1; cbn [r_name]. rewrite Hx1p. change (d +:+ "/" +:+ n) with old. rewrite deliver_moved_from; [done| |done]. unfold r1; cbn [r_cookie]. lia. }
  (* 2: the move-in half *)
  assert (Htnew : ∀ j, e_tree E !! j ≠ Some new).
  { intros j Hj. apply Hnonew in Hj. by rewrite is_under_refl in Hj. }
  destruct (deliver_moved_to W1 (mkK mk nw [r3]) dirs x2 r2 io wd3 x3 old)
    as (W4 & Hdel & Htwd4 & Htpath4 & Hring4); try done.
  { unfold r2; cbn [r_cookie]. lia. }
  { apply child_nonempty. }
  { unfold r2; cbn [r_name]. rewrite Hx2p. change (d' +:+ "/" +:+ n') with new. apply lookup_dir_tree; try done.
    - intros j Hj. eapply (ei_inj _ HE'); [exact Hj|]. by rewrite HT', lookup_fmap, Hio; cbn; rewrite mv_old.
    - by rewrite HT', lookup_fmap, Hio; cbn; rewrite mv_old. }
  { unfold r2, W1; cbn [r_name t_path]. rewrite Hx2p. change (d' +:+ "/" +:+ n') with new.
    destruct (t_path (W s) !! new) as [w|] eqn:E1; [|done].
    apply (ti_path _ _ _ _ _ _ HI) in E1 as (j & Hj & _). by apply Htnew in Hj. }
  { rewrite find_mark_rlookup. cbn [marks]. by eapply (ti_find HI). }
  { lia. }
  { by eapply (ti_twd0 HI). }
  { unfold r2; cbn [r_name]. rewrite Hx2p, Hx3p. change (d' +:+ "/" +:+ n') with new. intros Heq. apply (Htnew io). by rewrite <- Heq. }
  unfold r2 in Hdel; cbn [r_name] in Hdel. rewrite Hx2p, Hx2w in Hdel. change (d' +:+ "/" +:+ n') with new in Hdel.
  cbn [W1 t_wd t_path w_ring] in Htwd4, Htpath4, Hring4.
  assert (Etwd4 : t_wd W4 = t_wd (W s)) by (apply map_eq; exact Htwd4).
  assert (Etpath4 : t_path W4 = t_path (W s)).
  { apply map_eq. intros k. rewrite Htpath4. destruct (decide (k = w_path x3)) as [->|]; [|done].
    symmetry. apply (ti_path _ _ _ _ _ _ HI). exists io. by rewrite Hx3p. }
  set (W2 := rewrite_paths W4 wd2 old new) in *.
  assert (Hh2 : handle true "/" W1 (mkK mk nw [r3]) dirs r2 = (W2, mkK mk nw [r3], [OEv new Create old])).
  { rewrite (handle_plain _ _ _ r2 x2); [|done|apply name_len_nz|apply plain_mk_to].
    unfold r2; cbn [r_name]. rewrite Hx2p. change (d' +:+ "/" +:+ n') with new. exact Hdel. }
  assert (Htwd2 : ∀ w, t_wd W2 !! w = rewrite_one wd2 old new <$> t_wd (W s) !! w).
  { intros w. unfold W2. by rewrite rewrite_paths_lookup, Etwd4. }
  assert (Etpath2 : t_path W2 = rekey_paths (t_wd (W s)) (t_path (W s)) wd2 old new).
  { unfold W2. destruct (rewrite_paths_exact W4 wd2 old new) as (-> & _). by rewrite Etwd4, Etpath4. }
  assert (Ering2 : w_ring W2 = ring_store R c old).
  { unfold W2. destruct (rewrite_paths_exact W4 wd2 old new) as (_ & -> & _). done. }
  (* 3: IN_MOVE_SELF of a recursive watch is silent *)
  assert (Hh3 : handle true "/" W2 (mkK mk nw []) dirs r3 = (W2, mkK mk nw [], [])).
  { apply (handle_move_self _ _ _ r3 (rewrite_one wd2 old new x3)); [|..|done].
    - unfold r3; cbn [r_wd]. by rewrite Htwd2, Hx3.
    - destruct (rewrite_one_keeps wd2 old new x3) as (_ & _ & ->). done. }
  set (s3 := mkSys (mkK mk nw []) W2 (((outs s ++ [OEv old Rename ""]) ++ [OEv new Create old]) ++ [])
                   (((handled s ++ [r1]) ++ [r2]) ++ [r3])).
  assert (Hrun : runs [KEmit r1; KEmit r2; KEmit r3; SHandle dirs; SHandle dirs; SHandle dirs] s = s3).
  { change [KEmit r1; KEmit r2; KEmit r3; SHandle dirs; SHandle dirs; SHandle dirs]
      with ([KEmit r1; KEmit r2; KEmit r3] ++ [SHandle dirs; SHandle dirs; SHandle dirs]).
    rewrite runs_app, Hemit. unfold s0.
    erewrite runs_handle; [|done|exact Hh1]. erewrite runs_handle; [|done|exact Hh2].
    erewrite runs_handle; [|done|exact Hh3]. by rewrite runs_nil. }
  eapply stepok_intro; [exact Hex|exact Hrun|done| | | |].
  - split; cbn [s3 K W marks next_wd kq]; try done.
    + rewrite Etpath2.
      eapply ti_ext; [| |apply (ti_rename _ _ _ _ _ _ _ wd2 old new HI (ei_inj _ HE) Htwd2 Hnonew)].
      * intros j. symmetry. by apply covP_rename.
      * done.
      * intros x Hx. assert (x = x2) as -> by congruence. rewrite Hx2p.
        apply not_true_is_false. intros Hu.
        rewrite (is_under_trans new d' old) in Hno; [done|apply child_under_self|done].
    + rewrite Ering2. exact HR1.
  - cbn [s3 outs expected ev_outs fmap list_fmap fst snd]. by rewrite app_nil_r, <- app_assoc.
  - assert (Hdead1 : has_any mk_from dead_bits = false) by done.
    assert (Hdead2 : has_any mk_to dead_bits = false) by done.
    assert (Hdead3 : has_any IN_MOVE_SELF dead_bits = false) by done.
    cbn [app]. rewrite !valid_emit_cons. unfold r1, r2, r3.
    rewrite env_ok_emit; [|by eexists|done|lia|done|done|by apply comp_okb_no_nul].
    rewrite env_ok_emit; [|by eexists|done|cbn; lia|done|done|by apply comp_okb_no_nul].
    rewrite env_ok_emit; [|by eexists|done|cbn; lia|done|done|done].
    apply (valid_handles dirs 3).
  - change [SHandle dirs; SHandle dirs; SHandle dirs] with (replicate 3 (SHandle dirs)).
    rewrite results_app. apply Forall_app. split; [|apply results_handles].
    rewrite !results_cons. repeat constructor.
Qed.

(* ------------------------------------------------------------------ *)
(* 10. whole histories                                                 *)
(* ------------------------------------------------------------------ *)
Theorem step_ok E s st : Covered E s → mstep_ok E st = true → StepOK E s st.
Proof.
  destruct st; [apply step_mkdir|apply step_rename|apply step_file|apply step_addrec|apply step_removerec].
Qed.

Lemma nodup_fst_inj {A B} (l : list (A * B)) a b c : NoDup l.*1 → (a, b) ∈ l → (a, c) ∈ l → b = c.
Proof.
  induction l as [|[a' b'] l IH]; [by intros _ ?%elem_of_nil|].
  rewrite fmap_cons, NoDup_cons. cbn [fst]. intros [Hnin Hnd] [Hb|Hb]%elem_of_cons [Hc|Hc]%elem_of_cons.
  - congruence.
  - injection Hb as -> ->. exfalso. apply Hnin. apply elem_of_list_fmap. by exists (a', c).
  - injection Hc as -> ->. exfalso. apply Hnin. apply elem_of_list_fmap. by exists (a', b).
  - by apply IH.
Qed.

Lemma init_covered E : init_ok E = true → Covered E init_sys.
Proof.
  unfold init_ok. rewrite !andb_true_iff.
  intros [[[[H1 H2] H3] H4] H5]. apply bool_decide_eq_true_1 in H1, H2.
  apply N.ltb_lt in H4. apply N.eqb_eq in H5.
  assert (Hnc : ∀ i, ¬ covP E i).
  { intros i (p & _ & Hw). rewrite H1 in Hw. done. }
  split.
  - split.
    + intros i j p Hi Hj. apply elem_of_dirs_of in Hi, Hj. by eapply nodup_fst_inj.
    + intros i p Hi. pose proof (forallb_dirs _ _ H3 i p Hi) as H. cbn in H. by apply N.ltb_lt in H.
    + rewrite H1. constructor.
    + rewrite H1. by intros r r' ?%elem_of_nil.
    + rewrite H1. by intros r ?%elem_of_nil.
    + done.
  - cbn. split.
    + intros i Hi. by apply Hnc in Hi.
    + intros wd i Hm. by rewrite lookup_empty in Hm.
    + intros wd wd' i Hm. by rewrite lookup_empty in Hm.
    + intros wd x Hx. by rewrite lookup_empty in Hx.
    + intros k wd. rewrite lookup_empty. split; [done|]. intros (i & _ & Hm). by rewrite lookup_empty in Hm.
  - done.
  - split; [apply ring_wf_init|]. intros s Hs. unfold init_w, init_ring in Hs. cbn [w_ring W init_sys rg] in Hs. apply elem_of_replicate in Hs as [-> _]. done.
  - cbn. by rewrite H5.
  - rewrite H5. lia.
Qed.

Fixpoint env_run (E : menv) (h : list mstep) : menv :=
  match h with [] => E | st :: h' => env_run (env_step E st) h' end.

Lemma mstep_run_eq E s st : mstep_run (E, s) st = (env_step E st, runs (expand (E, s) st) s).
Proof. reflexivity. Qed.

Lemma run_sound h : ∀ E s,
  Covered E s → mwf E h = true →
  let M' := mrun (E, s) h in
  M'.1 = env_run E h ∧ Covered M'.1 M'.2 ∧
  outs M'.2 = outs s ++ ev_outs (expected_all E h) ∧
  valid cfgR (expand_all (E, s) h) s = true ∧
  Forall (λ r, r = RNil) (results (expand_all (E, s) h) s).
Proof.
  induction h as [|st h IH]; intros E s HC Hwf.
  - cbn [mrun expand_all expected_all env_run fst snd]. cbv zeta.
    split_and!; [done|done|cbn; by rewrite app_nil_r|done|constructor].
  - cbn [mwf] in Hwf. apply andb_true_iff in Hwf as [Hok Hwf].
    destruct (step_ok E s st HC Hok) as [H1 H2 H3 H4 _].
    cbn [mrun expand_all expected_all env_run]. rewrite mstep_run_eq.
    destruct (IH _ _ H1 Hwf) as (I0 & I1 & I2 & I3 & I4). cbv zeta in *.
    split_and!; try done.
    + rewrite I2, H2. unfold ev_outs. by rewrite fmap_app, app_assoc.
    + rewrite valid_app, H3. exact I3.
    + rewrite results_app. apply Forall_app. done.
Qed.

(* ---- the invariant, spelled out ---- *)
Theorem covered_spec E s :
  Covered E s →
  (* every directory below a watched root is watched, under its true current path, and listed under it *)
  (∀ r i p, r ∈ e_roots E → e_tree E !! i = Some p → is_under p r = true →
     ∃ wd x, marks (K s) !! wd = Some i ∧ t_wd (W s) !! wd = Some x ∧ w_wd x = wd ∧ w_path x = p ∧
             w_rec x = true ∧ t_path (W s) !! p = Some wd) ∧
  (* conversely: every entry of watches.wd is such a directory *)
  (∀ wd x, t_wd (W s) !! wd = Some x →
     ∃ i r, marks (K s) !! wd = Some i ∧ e_tree E !! i = Some (w_path x) ∧ r ∈ e_roots E ∧
            is_under (w_path x) r = true ∧ w_wd x = wd ∧ w_rec x = true ∧ t_path (W s) !! w_path x = Some wd) ∧
  (* every key of watches.path is the path of its watch: nothing stale, nothing dangling *)
  (∀ k wd, t_path (W s) !! k = Some wd → ∃ x, t_wd (W s) !! wd = Some x ∧ w_path x = k) ∧
  (* every kernel mark is listed *)
  (∀ wd i, marks (K s) !! wd = Some i → is_Some (t_wd (W s) !! wd)) ∧
  (* and the reader has handled everything *)
  kq (K s) = [].
Proof.
  intros HC. pose proof (cv_tab _ _ HC) as HI. split_and!.
  - intros r i p Hr Hi Hu.
    destruct (ti_cov _ _ _ _ _ _ HI i) as [wd Hm]; [exists p; split; [done|]; apply watched_true; eauto|].
    destruct (ti_mark _ _ _ _ _ _ HI _ _ Hm) as (_ & _ & _ & p' & x & Hp' & Hx & Hx1 & Hx2 & Hx3).
    assert (p' = p) as -> by congruence.
    exists wd, x. split_and!; try done. apply (ti_path _ _ _ _ _ _ HI). eauto.
  - intros wd x Hx. destruct (ti_wd _ _ _ _ _ _ HI _ _ Hx) as [i Hm].
    destruct (ti_mark _ _ _ _ _ _ HI _ _ Hm) as ((p0 & Hp0 & (r & Hr & Hu)%watched_true) & _ & _ & p' & x' & Hp' & Hx' & Hx1 & Hx2 & Hx3).
    assert (x' = x) as -> by congruence. assert (p0 = p') as -> by congruence.
    exists i, r. rewrite Hx2. split_and!; try done. apply (ti_path _ _ _ _ _ _ HI). eauto.
  - intros k wd Hk. by apply (ti_index HI).
  - intros wd i Hm. destruct (ti_mark _ _ _ _ _ _ HI _ _ Hm) as (_ & _ & _ & p' & x' & _ & Hx' & _). eauto.
  - apply HC.
Qed.

(* ---- the main theorems ---- *)
Theorem covered_run E0 h :
  init_ok E0 = true → mwf E0 h = true →
  Covered (mrun (E0, init_sys) h).1 (mrun (E0, init_sys) h).2.
Proof. intros H0 Hwf. by destruct (run_sound h E0 init_sys (init_covered _ H0) Hwf) as (_ & ? & _). Qed.

Theorem events_true_paths E0 h :
  init_ok E0 = true → mwf E0 h = true →
  evs (mrun (E0, init_sys) h).2 = expected_all E0 h ∧ errs (mrun (E0, init_sys) h).2 = [].
Proof.
  intros H0 Hwf. destruct (run_sound h E0 init_sys (init_covered _ H0) Hwf) as (_ & _ & Ho & _).
  cbv zeta in Ho. by apply outs_evs_errs in Ho.
Qed.

(* the expanded history is a System history the inotify contract allows, it reaches the same state, and no API
   call in it fails *)
Theorem expand_valid E0 h :
  init_ok E0 = true → mwf E0 h = true →
  valid cfgR (expand_all (E0, init_sys) h) init_sys = true ∧
  (run cfgR (expand_all (E0, init_sys) h) init_sys).1 = (mrun (E0, init_sys) h).2 ∧
  Forall (λ r, r = RNil) (run cfgR (expand_all (E0, init_sys) h) init_sys).2.
Proof.
  intros H0 Hwf. destruct (run_sound h E0 init_sys (init_covered _ H0) Hwf) as (_ & _ & _ & Hv & Ha).
  split_and!; [done| |done]. apply (expand_all_runs (E0, init_sys) h).
Qed.

(* a version from any covered state, e.g. for continuing a history *)
Theorem events_true_paths_from E s h :
  Covered E s → mwf E h = true →
  evs (mrun (E, s) h).2 = evs s ++ expected_all E h ∧ errs (mrun (E, s) h).2 = errs s ∧
  Covered (mrun (E, s) h).1 (mrun (E, s) h).2.
Proof.
  intros HC Hwf. destruct (run_sound h E s HC Hwf) as (_ & HC' & Ho & _).
  cbv zeta in Ho. apply outs_evs_errs in Ho as [? ?]. done.
Qed.

(* ------------------------------------------------------------------ *)
(* 11. corollaries in the words of the property                        *)
(* ------------------------------------------------------------------ *)

(* renaming a directory inside the tree *)
Theorem rename_keeps_coverage E s d n d' n' :
  Covered E s → mstep_ok E (MRenameDir d n d' n') = true →
  let old := child d n in let new := child d' n' in
  let M' := mstep_run (E, s) (MRenameDir d n d' n') in
  Covered M'.1 M'.2 ∧
  (* no watch is dropped or re-created *)
  marks (K M'.2) = marks (K s) ∧
  (* the renamed directory and every descendant is covered under the new location, and no longer listed under the old *)
  (∀ i rest, e_tree E !! i = Some (old +:+ rest) → comp_tail rest →
     ∃ wd x, marks (K M'.2) !! wd = Some i ∧ t_wd (W M'.2) !! wd = Some x ∧ w_path x = new +:+ rest ∧
             w_rec x = true ∧ t_path (W M'.2) !! (new +:+ rest) = Some wd ∧
             t_path (W M'.2) !! (old +:+ rest) = None) ∧
  (* every other covered directory keeps its path *)
  (∀ i p, e_tree E !! i = Some p → watched (e_roots E) p = true → is_under p old = false →
     ∃ wd x, marks (K M'.2) !! wd = Some i ∧ t_wd (W M'.2) !! wd = Some x ∧ w_path x = p ∧
             t_path (W M'.2) !! p = Some wd) ∧
  (* what is delivered *)
  evs M'.2 = evs s ++ [(old, Rename, ""); (new, Create, old)] ∧ errs M'.2 = errs s.
Proof.
  intros HC Hok old new M'. pose proof (cv_env _ _ HC) as HE.
  destruct (step_ok E s _ HC Hok) as [HC' Houts _ _ Hkeep].
  pose proof (rename_ok_inv E d n d' n' Hok) as
    (Hn & Hn' & [id Hd] & [id' Hd'] & [io Hio] & (r0 & Hr0 & Hu0 & Hu0') & Hnr & Hnonew & Hno & _).
  fold old new in Hio, Hnr, Hnonew, Hno.
  unfold M'. rewrite mstep_run_eq. cbn [fst snd].
  set (s' := runs (expand (E, s) (MRenameDir d n d' n')) s) in *.
  set (E' := env_step E (MRenameDir d n d' n')) in *.
  assert (HT' : ∀ i p, e_tree E !! i = Some p → e_tree E' !! i = Some (mv old new p)).
  { intros i p Hp. cbn [E' env_step e_tree]. by rewrite lookup_fmap, Hp. }
  assert (Hold0 : is_under old r0 = true) by by apply under_child.
  destruct (covered_spec _ _ HC') as (Hcov & _ & Hkeys & _).
  assert (Hr0' : r0 ∈ e_roots E') by done.
  destruct (outs_evs_errs _ _ _ Houts) as [Hev Herr].
  split_and!; [done|by apply Hkeep| | |exact Hev|exact Herr].
  - intros i rest Hi Hrest.
    assert (Hu : is_under (old +:+ rest) old = true) by (apply under_split; eauto).
    pose proof (HT' _ _ Hi) as Hi'. rewrite mv_under in Hi' by done.
    destruct (Hcov r0 i _ Hr0' Hi') as (wd & x & Hm & Hx & _ & Hxp & Hxr & Hk).
    { apply (is_under_trans _ new); [apply under_split; eauto|by apply under_child]. }
    exists wd, x. split_and!; try done.
    destruct (t_path (W s') !! (old +:+ rest)) as [w|] eqn:E1; [|done]. exfalso.
    pose proof (cv_tab _ _ HC') as HI'. apply (ti_path _ _ _ _ _ _ HI') in E1 as (j & Hj & _).
    cbn [E' env_step e_tree] in Hj. rewrite lookup_fmap in Hj.
    destruct (e_tree E !! j) as [q|] eqn:Hq; [|done]. injection Hj as Hj. fold old new in Hj.
    destruct (is_under q old) eqn:Hqo.
    + pose proof (mv_under_new old new q Hqo) as Hun. rewrite Hj in Hun.
      destruct (is_under_comparable _ _ _ Hu Hun) as [H|H]; [by rewrite (Hnonew io old) in H|congruence].
    + rewrite mv_outside in Hj by done. congruence.
  - intros i p Hi (r & Hr & Hu)%watched_true Hout.
    pose proof (HT' _ _ Hi) as Hi'. rewrite mv_outside in Hi' by done.
    destruct (Hcov r i _ Hr Hi' Hu) as (wd & x & Hm & Hx & _ & Hxp & _ & Hk). eauto 10.
Qed.

(* ... in particular a sibling of the renamed directory whose name merely extends it as a string (dir1 / dir10),
   and everything below that sibling *)
Corollary rename_spares_prefix_siblings E s parent a b d' n' rest i :
  Covered E s → mstep_ok E (MRenameDir parent b d' n') = true →
  PathLexProofs.no_slash a → a ≠ b → comp_tail rest →
  e_tree E !! i = Some (parent +:+ "/" +:+ a +:+ rest) → watched (e_roots E) (parent +:+ "/" +:+ a +:+ rest) = true →
  let M' := mstep_run (E, s) (MRenameDir parent b d' n') in
  ∃ wd x, marks (K M'.2) !! wd = Some i ∧ t_wd (W M'.2) !! wd = Some x ∧
          w_path x = parent +:+ "/" +:+ a +:+ rest ∧ t_path (W M'.2) !! (parent +:+ "/" +:+ a +:+ rest) = Some wd.
Proof.
  intros HC Hok Ha Hab Hrest Hi Hw M'.
  destruct (rename_keeps_coverage E s parent b d' n' HC Hok) as (_ & _ & _ & Hkeep & _).
  apply (Hkeep i _ Hi Hw). apply sibling_tree_not_under; try done.
  apply rename_ok_inv in Hok as (Hb & _). by apply comp_okb_no_slash.
Qed.

(* removing one of several recursive roots *)
Theorem remove_exactly_that_tree E s root :
  Covered E s → mstep_ok E (MRemoveRec root) = true →
  let M' := mstep_run (E, s) (MRemoveRec root) in
  Covered M'.1 M'.2 ∧
  (* nothing below root is watched or listed any more, and nothing there will be reported *)
  (∀ i p, e_tree E !! i = Some p → is_under p root = true →
     (∀ wd, marks (K M'.2) !! wd ≠ Some i) ∧ t_path (W M'.2) !! p = None ∧
     (∀ wd x, t_wd (W M'.2) !! wd = Some x → w_path x ≠ p) ∧
     watched (e_roots M'.1) p = false ∧ ∀ n mask, expected M'.1 (MFile p n mask) = []) ∧
  (* every other root's tree still is, under the same paths — e.g. t2 when t is removed *)
  (∀ r i p, r ∈ e_roots E → r ≠ root → e_tree E !! i = Some p → is_under p r = true →
     ∃ wd x, marks (K M'.2) !! wd = Some i ∧ t_wd (W M'.2) !! wd = Some x ∧ w_path x = p ∧
             t_path (W M'.2) !! p = Some wd) ∧
  (* the call itself delivers nothing and fails nowhere *)
  evs M'.2 = evs s ∧ errs M'.2 = errs s ∧
  Forall (λ r, r = RNil) (run cfgR (expand (E, s) (MRemoveRec root)) s).2.
Proof.
  intros HC Hok M'. pose proof (cv_env _ _ HC) as HE.
  destruct (step_ok E s _ HC Hok) as [HC' Houts _ Hapi _].
  apply removerec_ok_inv in Hok as (Hroot & _).
  unfold M'. rewrite mstep_run_eq. cbn [fst snd].
  set (s' := runs (expand (E, s) (MRemoveRec root)) s) in *.
  set (E' := env_step E (MRemoveRec root)) in *.
  destruct (covered_spec _ _ HC') as (Hcov & Hwd & Hkeys & _).
  pose proof (cv_tab _ _ HC') as HI'.
  apply outs_evs_errs in Houts as [Hev Herr]. cbn [expected] in Hev. rewrite app_nil_r in Hev.
  assert (Hnw : ∀ p, is_under p root = true → watched (e_roots E') p = false).
  { intros p Hu. apply not_true_is_false. intros (r & [Hne Hr]%elem_of_list_filter & Hu')%watched_true.
    apply Hne. by eapply one_root. }
  split_and!; try done.
  - intros i p Hi Hu. pose proof (Hnw p Hu) as Hw.
    assert (Hnm : ∀ wd, marks (K s') !! wd ≠ Some i).
    { intros wd Hm. destruct (ti_mark _ _ _ _ _ _ HI' _ _ Hm) as ((q & Hq & Hwq) & _).
      cbn [E' env_step e_tree] in Hq. congruence. }
    split_and!; try done.
    + destruct (t_path (W s') !! p) as [w|] eqn:E1; [|done]. exfalso.
      apply (ti_path _ _ _ _ _ _ HI') in E1 as (j & Hj & Hm). cbn [E' env_step e_tree] in Hj.
      rewrite (ei_inj _ HE _ _ _ Hj Hi) in Hm. by apply Hnm in Hm.
    + intros wd x Hx Hp. destruct (Hwd _ _ Hx) as (j & r & Hm & Hj & _). cbn [E' env_step e_tree] in Hj.
      rewrite Hp in Hj. rewrite (ei_inj _ HE _ _ _ Hj Hi) in Hm. by apply Hnm in Hm.
    + intros n mask. cbn [expected]. by rewrite Hw.
  - intros r i p Hr Hne Hi Hu.
    destruct (Hcov r i p) as (wd & x & Hm & Hx & _ & Hxp & _ & Hk); try done.
    { apply elem_of_list_filter. done. }
    eauto 10.
Qed.

(* a directory created inside the tree is covered from the moment its own Create has been delivered *)
Theorem mkdir_covered_at_once E s d n :
  Covered E s → mstep_ok E (MMkdir d n) = true → watched (e_roots E) d = true →
  let M' := mstep_run (E, s) (MMkdir d n) in
  evs M'.2 = evs s ++ [(child d n, Create, "")] ∧
  ∃ wd x, marks (K M'.2) !! wd = Some (e_next_ino E) ∧ t_wd (W M'.2) !! wd = Some x ∧
          w_path x = child d n ∧ w_rec x = true ∧ t_path (W M'.2) !! child d n = Some wd ∧
          (* so that whatever happens in it next is reported under its true path *)
          ∀ f mask, expected M'.1 (MFile (child d n) f mask) = [(child (child d n) f, translate mask, "")].
Proof.
  intros HC Hok Hw M'.
  destruct (step_ok E s _ HC Hok) as [HC' Houts _ _ _].
  unfold M'. rewrite mstep_run_eq. cbn [fst snd].
  apply outs_evs_errs in Houts as [Hev _]. cbn [expected] in Hev. rewrite Hw in Hev. split; [done|].
  apply watched_true in Hw as (r & Hr & Hu).
  destruct (covered_spec _ _ HC') as (Hcov & _).
  destruct (Hcov r (e_next_ino E) (child d n)) as (wd & x & Hm & Hx & _ & Hxp & Hxr & Hk).
  - done.
  - cbn [env_step e_tree]. by rewrite lookup_insert.
  - by apply under_child.
  - exists wd, x. split_and!; try done. intros f mask. cbn [expected env_step e_roots].
    assert (watched (e_roots E) (child d n) = true) as ->; [|done].
    apply watched_true. exists r. split; [done|by apply under_child].
Qed.

(* ---- the same, after any history ---- *)
Lemma mwf_app E a b : mwf E (a ++ b) = mwf E a && mwf (env_run E a) b.
Proof.
  revert E. induction a as [|st a IH]; intros E; [done|]. cbn [app mwf env_run]. by rewrite IH, andb_assoc.
Qed.

Lemma mrun_env E s h : (mrun (E, s) h).1 = env_run E h.
Proof. revert E s. induction h as [|st h IH]; intros E s; [done|]. cbn [mrun env_run]. by rewrite mstep_run_eq, IH. Qed.

Lemma hist_step E0 h st :
  init_ok E0 = true → mwf E0 (h ++ [st]) = true →
  Covered (mrun (E0, init_sys) h).1 (mrun (E0, init_sys) h).2 ∧ mstep_ok (mrun (E0, init_sys) h).1 st = true.
Proof.
  intros H0 Hwf. rewrite mwf_app in Hwf. apply andb_true_iff in Hwf as [Hwf Hst].
  split; [by apply covered_run|]. rewrite mrun_env. cbn [mwf] in Hst. by apply andb_true_iff in Hst as [? _].
Qed.

Theorem rename_keeps_coverage_hist E0 h d n d' n' :
  init_ok E0 = true → mwf E0 (h ++ [MRenameDir d n d' n']) = true →
  let old := child d n in let new := child d' n' in
  let M := mrun (E0, init_sys) h in
  let M' := mrun (E0, init_sys) (h ++ [MRenameDir d n d' n']) in
  Covered M'.1 M'.2 ∧
  marks (K M'.2) = marks (K M.2) ∧
  (∀ i rest, e_tree M.1 !! i = Some (old +:+ rest) → comp_tail rest →
     ∃ wd x, marks (K M'.2) !! wd = Some i ∧ t_wd (W M'.2) !! wd = Some x ∧ w_path x = new +:+ rest ∧
             w_rec x = true ∧ t_path (W M'.2) !! (new +:+ rest) = Some wd ∧
             t_path (W M'.2) !! (old +:+ rest) = None) ∧
  (∀ i p, e_tree M.1 !! i = Some p → watched (e_roots M.1) p = true → is_under p old = false →
     ∃ wd x, marks (K M'.2) !! wd = Some i ∧ t_wd (W M'.2) !! wd = Some x ∧ w_path x = p ∧
             t_path (W M'.2) !! p = Some wd) ∧
  evs M'.2 = evs M.2 ++ [(old, Rename, ""); (new, Create, old)] ∧ errs M'.2 = errs M.2.
Proof.
  intros H0 Hwf. destruct (hist_step E0 h _ H0 Hwf) as [HC Hok].
  cbv zeta. rewrite mrun_app. cbn [mrun]. destruct (mrun (E0, init_sys) h) as [E s].
  exact (rename_keeps_coverage E s d n d' n' HC Hok).
Qed.

Theorem remove_exactly_that_tree_hist E0 h root :
  init_ok E0 = true → mwf E0 (h ++ [MRemoveRec root]) = true →
  let M := mrun (E0, init_sys) h in
  let M' := mrun (E0, init_sys) (h ++ [MRemoveRec root]) in
  Covered M'.1 M'.2 ∧
  (∀ i p, e_tree M.1 !! i = Some p → is_under p root = true →
     (∀ wd, marks (K M'.2) !! wd ≠ Some i) ∧ t_path (W M'.2) !! p = None ∧
     (∀ wd x, t_wd (W M'.2) !! wd = Some x → w_path x ≠ p) ∧
     watched (e_roots M'.1) p = false ∧ ∀ n mask, expected M'.1 (MFile p n mask) = []) ∧
  (∀ r i p, r ∈ e_roots M.1 → r ≠ root → e_tree M.1 !! i = Some p → is_under p r = true →
     ∃ wd x, marks (K M'.2) !! wd = Some i ∧ t_wd (W M'.2) !! wd = Some x ∧ w_path x = p ∧
             t_path (W M'.2) !! p = Some wd) ∧
  evs M'.2 = evs M.2 ∧ errs M'.2 = errs M.2.
Proof.
  intros H0 Hwf. destruct (hist_step E0 h _ H0 Hwf) as [HC Hok].
  cbv zeta. rewrite mrun_app. cbn [mrun]. destruct (mrun (E0, init_sys) h) as [E s].
  destruct (remove_exactly_that_tree E s root HC Hok) as (H1 & H2 & H3 & H4 & H5 & _). done.
Qed.

Theorem mkdir_covered_at_once_hist E0 h d n :
  init_ok E0 = true → mwf E0 (h ++ [MMkdir d n]) = true →
  let M := mrun (E0, init_sys) h in
  let M' := mrun (E0, init_sys) (h ++ [MMkdir d n]) in
  watched (e_roots M.1) d = true →
  evs M'.2 = evs M.2 ++ [(child d n, Create, "")] ∧
  ∃ wd x, marks (K M'.2) !! wd = Some (e_next_ino M.1) ∧ t_wd (W M'.2) !! wd = Some x ∧
          w_path x = child d n ∧ w_rec x = true ∧ t_path (W M'.2) !! child d n = Some wd ∧
          ∀ f mask, expected M'.1 (MFile (child d n) f mask) = [(child (child d n) f, translate mask, "")].
Proof.
  intros H0 Hwf. destruct (hist_step E0 h _ H0 Hwf) as [HC Hok].
  cbv zeta. rewrite mrun_app. cbn [mrun]. destruct (mrun (E0, init_sys) h) as [E s]. intros Hw.
  exact (mkdir_covered_at_once E s d n HC Hok Hw).
Qed.

(* ------------------------------------------------------------------ *)
(* 12. examples (vm_compute): the premises are satisfiable              *)
(* ------------------------------------------------------------------ *)
Definition ex_env : menv := mkEnv (list_to_map [(100, "/t"); (200, "/t2")]) [] 300 1 1.
Definition ex_M0 : mstate := (ex_env, init_sys).

Definition show (M : mstate) :=
  (map_to_list (t_path (W M.2)),
   (λ x, (x.1, w_path x.2)) <$> map_to_list (t_wd (W M.2)),
   map_to_list (marks (K M.2)), kq (K M.2)).

(* two roots /t and /t2 sharing a string prefix; siblings dir1 / dir10; mkdirs one level at a time; the inner
   directory dir1 (with descendants) is renamed below dir10; file operations at depth 4 and 2 after the rename;
   the old name dir1 is used again; Remove of /t; then activity in the removed tree (silent) and in /t2/sub *)
Definition ex_h1 : list mstep :=
  [ MAddRec "/t"; MAddRec "/t2"; MMkdir "/t" "dir1"; MMkdir "/t" "dir10"; MMkdir "/t/dir1" "sub";
    MMkdir "/t/dir1/sub" "deep"; MMkdir "/t2" "sub";
    MFile "/t/dir1/sub" "f" IN_CREATE;
    MRenameDir "/t" "dir1" "/t/dir10" "mv";
    MFile "/t/dir10/mv/sub/deep" "g" IN_MODIFY; MFile "/t/dir10" "h" IN_CREATE;
    MMkdir "/t" "dir1"; MFile "/t/dir1" "again" IN_CREATE;
    MRemoveRec "/t";
    MFile "/t/dir10/mv/sub" "x" IN_CREATE; MMkdir "/t/dir10" "late";
    MFile "/t2/sub" "y" IN_ATTRIB; MMkdir "/t2/sub" "deeper"; MFile "/t2/sub/deeper" "z" IN_DELETE ].

Example ex_h1_premises : init_ok ex_env = true ∧ mwf ex_env ex_h1 = true.
Proof. vm_compute. done. Qed.

(* Create = 1, Write = 2, Remove = 4, Rename = 8, Chmod = 16 *)
Example ex_h1_events :
  evs (mrun ex_M0 ex_h1).2 =
    [("/t/dir1", 1, ""); ("/t/dir10", 1, ""); ("/t/dir1/sub", 1, ""); ("/t/dir1/sub/deep", 1, "");
     ("/t2/sub", 1, ""); ("/t/dir1/sub/f", 1, "");
     ("/t/dir1", 8, ""); ("/t/dir10/mv", 1, "/t/dir1");
     ("/t/dir10/mv/sub/deep/g", 2, ""); ("/t/dir10/h", 1, "");
     ("/t/dir1", 1, ""); ("/t/dir1/again", 1, "");
     ("/t2/sub/y", 16, ""); ("/t2/sub/deeper", 1, ""); ("/t2/sub/deeper/z", 4, "")]
  ∧ errs (mrun ex_M0 ex_h1).2 = []
  ∧ evs (mrun ex_M0 ex_h1).2 = expected_all ex_env ex_h1.
Proof. vm_compute. done. Qed.

(* the tables before the Remove: every key of watches.path is a true current path *)
Example ex_h1_tables_before_remove :
  show (mrun ex_M0 (firstn 13 ex_h1)) =
    ([("/t", 1); ("/t2", 2); ("/t2/sub", 7); ("/t/dir1", 8); ("/t/dir10", 4); ("/t/dir10/mv", 3);
      ("/t/dir10/mv/sub", 5); ("/t/dir10/mv/sub/deep", 6)],
     [(1, "/t"); (3, "/t/dir10/mv"); (7, "/t2/sub"); (5, "/t/dir10/mv/sub"); (2, "/t2"); (4, "/t/dir10");
      (8, "/t/dir1"); (6, "/t/dir10/mv/sub/deep")],
     [(1, 100); (3, 300); (7, 304); (5, 302); (2, 200); (4, 301); (8, 305); (6, 303)], []).
Proof. vm_compute. done. Qed.

(* ... and at the end: only the tree of /t2 is left *)
Example ex_h1_tables_end :
  show (mrun ex_M0 ex_h1) =
    ([("/t2", 2); ("/t2/sub", 7); ("/t2/sub/deeper", 9)],
     [(7, "/t2/sub"); (9, "/t2/sub/deeper"); (2, "/t2")],
     [(7, 304); (9, 307); (2, 200)], []).
Proof. vm_compute. done. Qed.

(* the expansion is a valid System history of 41 steps, and no API call in it fails *)
Example ex_h1_valid :
  valid cfgR (expand_all ex_M0 ex_h1) init_sys = true ∧ length (expand_all ex_M0 ex_h1) = 41%nat ∧
  forallb (λ r, match r with RNil => true | _ => false end) (run cfgR (expand_all ex_M0 ex_h1) init_sys).2 = true.
Proof. vm_compute. done. Qed.

(* what MMkdir / MRenameDir expand to *)
Example ex_expand_mkdir :
  expand (mrun ex_M0 (firstn 2 ex_h1)) (MMkdir "/t" "dir1") =
    [ KEmit (mkRaw 1 (N.lor IN_CREATE IN_ISDIR) 0 16 "dir1");
      SHandle [("/t2", 200); ("/t", 100); ("/t/dir1", 300)] ].
Proof. vm_compute. done. Qed.

Example ex_expand_rename :
  expand (mrun ex_M0 (firstn 8 ex_h1)) (MRenameDir "/t" "dir1" "/t/dir10" "mv") =
    let dirs := [("/t/dir10/mv/sub/deep", 303); ("/t/dir10", 301); ("/t2/sub", 304); ("/t2", 200); ("/t", 100);
                 ("/t/dir10/mv", 300); ("/t/dir10/mv/sub", 302)] in
    [ KEmit (mkRaw 1 (N.lor IN_MOVED_FROM IN_ISDIR) 1 16 "dir1");
      KEmit (mkRaw 4 (N.lor IN_MOVED_TO IN_ISDIR) 1 16 "mv");
      KEmit (mkRaw 3 IN_MOVE_SELF 0 0 "");
      SHandle dirs; SHandle dirs; SHandle dirs ].
Proof. vm_compute. done. Qed.

(* The three histories that went wrong before the path index was re-keyed with the watch paths (the Go code left
   the keys of watches.path at the OLD names after a rename):
   (a) WatchList listed the old names; (b) re-using the old name registered the new directory under the renamed
   directory's watch: events in t/a were named t/b/…, t/b itself fell silent; (c) after two renames one
   descriptor had two keys and Remove(t/...) failed with EINVAL, leaking kernel watches. *)
Definition ex_ha : list mstep :=
  [ MAddRec "/t"; MMkdir "/t" "a"; MMkdir "/t/a" "s"; MRenameDir "/t" "a" "/t" "b" ].

Example ex_rename_watchlist :
  mwf ex_env ex_ha = true ∧
  (sys_step cfgR (mrun ex_M0 ex_ha).2 SList).2 = RList ["/t"; "/t/b"; "/t/b/s"] ∧
  (sys_step cfgR (mrun ex_M0 ex_ha).2 (SRemove "/t/a")).2 = RErr ErrNonExistentWatch.
Proof. vm_compute. done. Qed.

Definition ex_hb : list mstep :=
  ex_ha ++ [ MMkdir "/t" "a"; MFile "/t/a" "f" IN_CREATE; MFile "/t/b" "g" IN_CREATE; MFile "/t/b/s" "k" IN_CREATE ].

Example ex_name_reuse :
  mwf ex_env ex_hb = true ∧
  evs (mrun ex_M0 ex_hb).2 =
    [("/t/a", 1, ""); ("/t/a/s", 1, ""); ("/t/a", 8, ""); ("/t/b", 1, "/t/a");
     ("/t/a", 1, ""); ("/t/a/f", 1, ""); ("/t/b/g", 1, ""); ("/t/b/s/k", 1, "")] ∧
  show (mrun ex_M0 ex_hb) =
    ([("/t", 1); ("/t/b", 2); ("/t/b/s", 3); ("/t/a", 4)],
     [(1, "/t"); (3, "/t/b/s"); (2, "/t/b"); (4, "/t/a")],
     [(1, 100); (3, 301); (2, 300); (4, 302)], []).
Proof. vm_compute. done. Qed.

Definition ex_hc : list mstep :=
  ex_ha ++ [ MRenameDir "/t" "b" "/t" "c"; MRemoveRec "/t" ].

Example ex_double_rename_remove :
  mwf ex_env ex_hc = true ∧
  show (mrun ex_M0 ex_hc) = ([], [], [], []) ∧
  errs (mrun ex_M0 ex_hc).2 = [] ∧
  forallb (λ r, match r with RNil => true | _ => false end) (run cfgR (expand_all ex_M0 ex_hc) init_sys).2 = true.
Proof. vm_compute. done. Qed.

Print Assumptions covered_run.
Print Assumptions events_true_paths.
Print Assumptions expand_valid.
Print Assumptions covered_spec.
Print Assumptions rename_keeps_coverage.
Print Assumptions rename_spares_prefix_siblings.
Print Assumptions remove_exactly_that_tree.
Print Assumptions mkdir_covered_at_once.
Print Assumptions rename_keeps_coverage_hist.
Print Assumptions remove_exactly_that_tree_hist.
Print Assumptions mkdir_covered_at_once_hist.
