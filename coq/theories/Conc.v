(* Conc.v — goroutine-level model of the inotify Watcher's protocol (shared.go, backend_inotify.go:
   newBackend / readEvents / handleEvent / AddWith / Remove / WatchList / Close): the reader goroutine, any number of API
   callers and closers, the consumer of Events/Errors (which may never run), the kernel delivering batches; the mutex
   `mu`, the channels `done`, `doneResp`, `Events` (any capacity) and `Errors` (unbuffered).

   The sequential content is abstract.  The reader's input is a stream of raw ITEMS (type I), one per notification.
   For each item the reader first sends [pre i] (the overflow report: a function of the item alone, sent before taking
   the mutex), then runs the critical section of handleEvent, which applies [hnd] to the SHARED sequential state
   [data] — the same state the API calls read and update under the same mutex — and yields the messages to send
   after unlocking (a pending error, the event).  What is sent therefore depends on the tables at the moment of the
   critical section.  API calls apply [api] to [data] inside their critical section.  The kernel side of [data] may
   change at any time, mutex or not: label [LEnv k] applies the partial function [env].  ConcSystem.v instantiates
   D, api, hnd, env with the sequential model (System.v).

   Two facts about the code are PARAMETERS, established by the checker of Cfg.v on the skeletons the translator
   generates from the current source: whether any channel operation happens while `mu` is held (cf_send_in_cs) and
   whether the API functions test isClosed before anything else (cf_guard_first).  Executable; proofs in ConcSafety.v / ConcLive.v. *)
From stdpp Require Import gmap list.
Local Open Scope nat_scope.

Section Conc.
  Context {E X D C R I K : Type}.        (* events, errors, sequential state, API calls, API results, raw items,
                                            environment (kernel-side) steps *)
  Variable api : D → C → D * R.          (* the sequential semantics of one API call (its critical section) *)
  Variable closed_result : C → R.        (* what an API call returns once the watcher is closed: ErrClosed / nil / nil *)

  Inductive msg := MEv (e : E) | MEr (x : X).

  Variable pre : I → list msg.           (* what the reader sends for an item BEFORE taking the mutex *)
  Variable hnd : D → I → D * list msg.   (* the reader's critical section: new data, messages to send after unlocking *)
  Variable env : D → K → option D.       (* an environment step on the data, at any time; None = not allowed now *)

  (* linearisation entries: everything that reads or writes [data], in the order it happened *)
  Inductive linent :=
  | LinCall (c : C) (r : R)              (* the critical section of an API call, with the result it returned *)
  | LinHandle (i : I) (post : list msg)  (* the reader's critical section for item i, with what it decided to send *)
  | LinEnv (k : K).                      (* an environment step *)

  Record cfacts := mkCf {
    cf_send_in_cs : bool;        (* true: handleEvent sends its pending error while still holding mu *)
    cf_guard_first : bool;       (* true: AddWith/Remove/WatchList test isClosed() before taking mu *)
  }.

  Definition tid := nat.
  Fixpoint err_msgs (ms : list msg) : list msg :=
    match ms with [] => [] | MEr x :: r => MEr x :: err_msgs r | MEv _ :: r => err_msgs r end.
  Fixpoint ev_msgs (ms : list msg) : list msg :=
    match ms with [] => [] | MEv e :: r => MEv e :: ev_msgs r | MEr _ :: r => ev_msgs r end.

  (* reader goroutine *)
  Inductive rpc :=
  | RTop                                     (* `if w.isClosed() { return }` at the top of the loop *)
  | RRead                                    (* blocked in inotifyFile.Read *)
  | RBatch (items : list I)                  (* decode loop over one read *)
  | RPre (ms : list msg) (it : I) (rest : list I)              (* sends before the critical section *)
  | RWantLock (it : I) (rest : list I)                         (* handleEvent: w.mu.Lock() *)
  | RInCs (it : I) (rest : list I)                             (* inside the critical section *)
  | RCsSend (ms : list msg) (after : list msg) (rest : list I) (* only if cf_send_in_cs: sending errors while holding mu *)
  | RPost (ms : list msg) (rest : list I)                      (* sends after the critical section *)
  | RExit1 | RExit2 | RExit3                 (* deferred: close(doneResp); close(Errors); close(Events) *)
  | RDead.

  (* API callers (Add/Remove/WatchList) and closers *)
  Inductive cpc :=
  | CStart (c : C)                           (* about to test isClosed() *)
  | CWantLock (c : C)
  | CInCs (c : C)
  | CDone (r : R)
  | KStart                                   (* Close(): shared.close(): w.mu.Lock() *)
  | KInCs                                    (* holding mu: isClosed? close(done) *)
  | KCloseFile                               (* inotifyFile.Close() *)
  | KWaitResp                                (* <-w.doneResp *)
  | KDone.

  Record cstate := mkC {
    mu : option tid;                (* holder of w.mu; the reader is thread 0 *)
    done_closed : bool;
    file_closed : bool;
    resp_closed : bool;
    ev_buf : list E; ev_closed : bool;
    er_closed : bool;
    rd : rpc;
    thr : gmap tid cpc;             (* threads 1.. *)
    data : D;
    recvd_ev : list E;              (* what the consumer received on Events, in order *)
    recvd_er : list X;              (* … on Errors *)
    lin : list linent;              (* ghost: API calls, handled items and environment steps in the order they
                                       touched [data], with the results / messages they produced *)
    started : list I;               (* ghost: the items the reader has begun to process (entered RPre), in order *)
    panicked : bool;                (* a send on / close of a closed channel *)
  }.

  Definition reader_tid : tid := 0.

  Inductive label :=
  | LThr (t : tid)                  (* thread t (0 = the reader) takes its next step *)
  | LConsumeEv                      (* the consumer receives from Events *)
  | LConsumeEr                      (* the consumer receives from Errors *)
  | LKernel (b : list I)            (* a read of the inotify descriptor returns a batch *)
  | LSpawn (t : tid) (p : cpc)      (* a new API call / Close call starts on thread t *)
  | LEnv (k : K).                   (* the kernel side changes [data]; not subject to the mutex *)

  Definition upd_rd (s : cstate) (p : rpc) : cstate :=
    mkC (mu s) (done_closed s) (file_closed s) (resp_closed s) (ev_buf s) (ev_closed s) (er_closed s) p (thr s) (data s)
        (recvd_ev s) (recvd_er s) (lin s) (started s) (panicked s).
  Definition upd_thr (s : cstate) (t : tid) (p : cpc) : cstate :=
    mkC (mu s) (done_closed s) (file_closed s) (resp_closed s) (ev_buf s) (ev_closed s) (er_closed s) (rd s) (<[t := p]> (thr s))
        (data s) (recvd_ev s) (recvd_er s) (lin s) (started s) (panicked s).
  Definition upd_mu (s : cstate) (m : option tid) : cstate :=
    mkC m (done_closed s) (file_closed s) (resp_closed s) (ev_buf s) (ev_closed s) (er_closed s) (rd s) (thr s) (data s)
        (recvd_ev s) (recvd_er s) (lin s) (started s) (panicked s).

  (* where the reader goes after the message list of a phase is exhausted *)
  Definition after_pre (it : I) (rest : list I) : rpc := RWantLock it rest.
  Definition after_post (rest : list I) : rpc := RBatch rest.

  (* the reader's next step, when it is not a rendezvous with the consumer; None = blocked *)
  Definition reader_step (cap : nat) (cf : cfacts) (s : cstate) : option cstate :=
    match rd s with
    | RTop => Some (upd_rd s (if done_closed s then RExit1 else RRead))
    | RRead => if file_closed s then Some (upd_rd s RExit1) else None      (* Read fails with ErrClosed; else blocked *)
    | RBatch [] => Some (upd_rd s RTop)
    | RBatch (it :: rest) =>
      Some (mkC (mu s) (done_closed s) (file_closed s) (resp_closed s) (ev_buf s) (ev_closed s) (er_closed s)
                (RPre (pre it) it rest) (thr s) (data s) (recvd_ev s) (recvd_er s) (lin s) (started s ++ [it]) (panicked s))
    | RPre [] it rest => Some (upd_rd s (after_pre it rest))
    | RPre (m :: ms) it rest =>
      (* select { case <-done: return false; case ch <- m: } — the done branch; the send branch is below / a rendezvous *)
      match m with
      | MEv e => if done_closed s then Some (upd_rd s RExit1)
                 else if decide (length (ev_buf s) < cap) then
                   Some (mkC (mu s) (done_closed s) (file_closed s) (resp_closed s) (ev_buf s ++ [e]) (ev_closed s) (er_closed s)
                             (RPre ms it rest) (thr s) (data s) (recvd_ev s) (recvd_er s) (lin s) (started s) (panicked s || ev_closed s))
                 else None
      | MEr _ => if done_closed s then Some (upd_rd s RExit1) else None
      end
    | RWantLock it rest => match mu s with None => Some (upd_mu (upd_rd s (RInCs it rest)) (Some reader_tid)) | Some _ => None end
    | RInCs it rest =>
      (* the critical section of handleEvent: reads and updates the shared data; what is sent afterwards is decided here *)
      let '(d', post) := hnd (data s) it in
      if cf_send_in_cs cf
      then Some (mkC (mu s) (done_closed s) (file_closed s) (resp_closed s) (ev_buf s) (ev_closed s) (er_closed s)
                     (RCsSend (err_msgs post) (ev_msgs post) rest) (thr s) d' (recvd_ev s) (recvd_er s)
                     (lin s ++ [LinHandle it post]) (started s) (panicked s))
      else Some (mkC None (done_closed s) (file_closed s) (resp_closed s) (ev_buf s) (ev_closed s) (er_closed s)
                     (RPost post rest) (thr s) d' (recvd_ev s) (recvd_er s)
                     (lin s ++ [LinHandle it post]) (started s) (panicked s))     (* Unlock, then send *)
    | RCsSend [] after rest => Some (upd_mu (upd_rd s (RPost after rest)) None)
    | RCsSend (m :: ms) after rest =>
      match m with
      | MEr _ => if done_closed s then Some (upd_mu (upd_rd s RExit1) None) else None    (* deferred Unlock on return *)
      | MEv _ => Some (upd_rd s (RCsSend ms after rest))
      end
    | RPost [] rest => Some (upd_rd s (after_post rest))
    | RPost (m :: ms) rest =>
      match m with
      | MEv e => if done_closed s then Some (upd_rd s RExit1)
                 else if decide (length (ev_buf s) < cap) then
                   Some (mkC (mu s) (done_closed s) (file_closed s) (resp_closed s) (ev_buf s ++ [e]) (ev_closed s) (er_closed s)
                             (RPost ms rest) (thr s) (data s) (recvd_ev s) (recvd_er s) (lin s) (started s) (panicked s || ev_closed s))
                 else None
      | MEr _ => if done_closed s then Some (upd_rd s RExit1) else None
      end
    | RExit1 => Some (mkC (mu s) (done_closed s) (file_closed s) true (ev_buf s) (ev_closed s) (er_closed s) RExit2 (thr s) (data s)
                          (recvd_ev s) (recvd_er s) (lin s) (started s) (panicked s || resp_closed s))
    | RExit2 => Some (mkC (mu s) (done_closed s) (file_closed s) (resp_closed s) (ev_buf s) (ev_closed s) true RExit3 (thr s) (data s)
                          (recvd_ev s) (recvd_er s) (lin s) (started s) (panicked s || er_closed s))
    | RExit3 => Some (mkC (mu s) (done_closed s) (file_closed s) (resp_closed s) (ev_buf s) true (er_closed s) RDead (thr s) (data s)
                          (recvd_ev s) (recvd_er s) (lin s) (started s) (panicked s || ev_closed s))
    | RDead => None
    end.

  (* a caller's / closer's next step; None = blocked or finished *)
  Definition thread_step (cf : cfacts) (s : cstate) (t : tid) : option cstate :=
    match thr s !! t with
    | None => None
    | Some p =>
      match p with
      | CStart c =>
        if cf_guard_first cf && done_closed s then Some (upd_thr s t (CDone (closed_result c)))
        else Some (upd_thr s t (CWantLock c))
      | CWantLock c => match mu s with None => Some (upd_mu (upd_thr s t (CInCs c)) (Some t)) | Some _ => None end
      | CInCs c =>
        let '(d', r) := api (data s) c in
        Some (mkC None (done_closed s) (file_closed s) (resp_closed s) (ev_buf s) (ev_closed s) (er_closed s) (rd s)
                  (<[t := CDone r]> (thr s)) d' (recvd_ev s) (recvd_er s) (lin s ++ [LinCall c r]) (started s) (panicked s))
      | CDone _ => None
      | KStart => match mu s with None => Some (upd_mu (upd_thr s t KInCs) (Some t)) | Some _ => None end
      | KInCs =>
        if done_closed s
        then Some (upd_mu (upd_thr s t KDone) None)                                   (* already closed: return nil *)
        else Some (mkC None true (file_closed s) (resp_closed s) (ev_buf s) (ev_closed s) (er_closed s) (rd s)
                       (<[t := KCloseFile]> (thr s)) (data s) (recvd_ev s) (recvd_er s) (lin s) (started s) (panicked s))
      | KCloseFile => Some (mkC (mu s) (done_closed s) true (resp_closed s) (ev_buf s) (ev_closed s) (er_closed s) (rd s)
                                (<[t := KWaitResp]> (thr s)) (data s) (recvd_ev s) (recvd_er s) (lin s) (started s) (panicked s))
      | KWaitResp => if resp_closed s then Some (upd_thr s t KDone) else None
      | KDone => None
      end
    end.

  (* the consumer receives from Events: from the buffer, or directly from the reader blocked in an unbuffered send *)
  Definition consume_ev (s : cstate) : option cstate :=
    match ev_buf s with
    | e :: b => Some (mkC (mu s) (done_closed s) (file_closed s) (resp_closed s) b (ev_closed s) (er_closed s) (rd s) (thr s) (data s)
                          (recvd_ev s ++ [e]) (recvd_er s) (lin s) (started s) (panicked s))
    | [] =>
      match rd s with
      | RPre (MEv e :: ms) it rest =>
        Some (mkC (mu s) (done_closed s) (file_closed s) (resp_closed s) [] (ev_closed s) (er_closed s) (RPre ms it rest) (thr s) (data s)
                  (recvd_ev s ++ [e]) (recvd_er s) (lin s) (started s) (panicked s || ev_closed s))
      | RPost (MEv e :: ms) rest =>
        Some (mkC (mu s) (done_closed s) (file_closed s) (resp_closed s) [] (ev_closed s) (er_closed s) (RPost ms rest) (thr s) (data s)
                  (recvd_ev s ++ [e]) (recvd_er s) (lin s) (started s) (panicked s || ev_closed s))
      | _ => None
      end
    end.

  Definition consume_er (s : cstate) : option cstate :=
    match rd s with
    | RPre (MEr x :: ms) it rest =>
      Some (mkC (mu s) (done_closed s) (file_closed s) (resp_closed s) (ev_buf s) (ev_closed s) (er_closed s) (RPre ms it rest) (thr s) (data s)
                (recvd_ev s) (recvd_er s ++ [x]) (lin s) (started s) (panicked s || er_closed s))
    | RPost (MEr x :: ms) rest =>
      Some (mkC (mu s) (done_closed s) (file_closed s) (resp_closed s) (ev_buf s) (ev_closed s) (er_closed s) (RPost ms rest) (thr s) (data s)
                (recvd_ev s) (recvd_er s ++ [x]) (lin s) (started s) (panicked s || er_closed s))
    | RCsSend (MEr x :: ms) after rest =>
      Some (mkC (mu s) (done_closed s) (file_closed s) (resp_closed s) (ev_buf s) (ev_closed s) (er_closed s) (RCsSend ms after rest) (thr s) (data s)
                (recvd_ev s) (recvd_er s ++ [x]) (lin s) (started s) (panicked s || er_closed s))
    | _ => None
    end.

  Definition cstep (cap : nat) (cf : cfacts) (s : cstate) (l : label) : option cstate :=
    match l with
    | LThr t => if decide (t = reader_tid) then reader_step cap cf s else thread_step cf s t
    | LConsumeEv => consume_ev s
    | LConsumeEr => consume_er s
    | LKernel b => match rd s with RRead => if file_closed s then None else Some (upd_rd s (RBatch b)) | _ => None end
    | LSpawn t p =>
      if decide (t = reader_tid) then None
      else match thr s !! t, p with
           | None, CStart _ | None, KStart => Some (upd_thr s t p)
           | _, _ => None
           end
    | LEnv k =>
      match env (data s) k with
      | Some d' => Some (mkC (mu s) (done_closed s) (file_closed s) (resp_closed s) (ev_buf s) (ev_closed s) (er_closed s)
                             (rd s) (thr s) d' (recvd_ev s) (recvd_er s) (lin s ++ [LinEnv k]) (started s) (panicked s))
      | None => None
      end
    end.

  Definition cinit (d : D) : cstate := mkC None false false false [] false false RTop ∅ d [] [] [] [] false.

  Fixpoint crun (cap : nat) (cf : cfacts) (s : cstate) (ls : list label) : option cstate :=
    match ls with
    | [] => Some s
    | l :: ls' => match cstep cap cf s l with Some s' => crun cap cf s' ls' | None => None end
    end.

  Definition reachable (cap : nat) (cf : cfacts) (d : D) (s : cstate) : Prop := ∃ ls, crun cap cf (cinit d) ls = Some s.

  (* everything the reader will still send for the work it has taken, in order (events only) *)
  Definition evs_of (ms : list msg) : list E := omap (λ m, match m with MEv e => Some e | _ => None end) ms.
  Definition ers_of (ms : list msg) : list X := omap (λ m, match m with MEr x => Some x | _ => None end) ms.
End Conc.

Arguments cinit {E X D C R I K} d.
Arguments cstep {E X D C R I K} api closed_result pre hnd env cap cf s l.
Arguments crun {E X D C R I K} api closed_result pre hnd env cap cf s ls.
Arguments reachable {E X D C R I K} api closed_result pre hnd env cap cf d s.
