(* Conc.v — goroutine-level model of the inotify Watcher's protocol (shared.go, backend_inotify.go:
   newBackend / readEvents / handleEvent / AddWith / Remove / WatchList / Close): the reader goroutine, any number of API
   callers and closers, the consumer of Events/Errors (which may never run), the kernel delivering batches; the mutex
   `mu`, the channels `done`, `doneResp`, `Events` (any capacity) and `Errors` (unbuffered).

   The sequential content is abstract: the reader's input is a stream of ITEMS, one per notification, each saying what
   handling that notification sends: errors sent before the critical section (the overflow report), then the critical
   section of handleEvent, then the messages sent after it (a pending error, the event).  Which messages those are is
   decided by the sequential model (Watcher.handle); nothing here depends on it.  API calls apply an abstract
   transition [api] to an abstract state inside their critical section.

   Two facts about the code are PARAMETERS, established by the checker of Cfg.v on the skeletons the translator
   generates from the current source: whether any channel operation happens while `mu` is held (cf_send_in_cs) and
   whether the API functions test isClosed before anything else (cf_guard_first).  Executable; proofs in ConcProofs.v. *)
From stdpp Require Import gmap list.
Local Open Scope nat_scope.

Section Conc.
  Context {E X D C R : Type}.            (* events, errors, sequential state, API calls, API results *)
  Variable api : D → C → D * R.          (* the sequential semantics of one API call (its critical section) *)
  Variable closed_result : C → R.        (* what an API call returns once the watcher is closed: ErrClosed / nil / nil *)

  Inductive msg := MEv (e : E) | MEr (x : X).
  Record item := mkItem { it_pre : list msg; it_post : list msg }.

  Record cfacts := mkCf {
    cf_send_in_cs : bool;        (* true: handleEvent sends its pending error while still holding mu *)
    cf_guard_first : bool;       (* true: AddWith/Remove/WatchList test isClosed() before taking mu *)
  }.

  Definition tid := nat.
  Fixpoint err_msgs (ms : list msg) : list msg :=
    match ms with [] => [] | MEr x :: r => MEr x :: err_msgs r | MEv _ :: r => err_msgs r end.
  Fixpoint ev_msgs (ms : list msg) : list msg :=
    match ms with [] => [] | MEv e :: r => MEv e :: ev_msgs r | MEr _ :: r => ev_msgs r end.

  (* reader goroutine *)
  Inductive rpc :=
  | RTop                                     (* `if w.isClosed() { return }` at the top of the loop *)
  | RRead                                    (* blocked in inotifyFile.Read *)
  | RBatch (items : list item)               (* decode loop over one read *)
  | RPre (ms : list msg) (it : item) (rest : list item)        (* sends before the critical section *)
  | RWantLock (it : item) (rest : list item)                   (* handleEvent: w.mu.Lock() *)
  | RInCs (it : item) (rest : list item)                       (* inside the critical section *)
  | RCsSend (ms : list msg) (after : list msg) (rest : list item)   (* only if cf_send_in_cs: sending errors while holding mu *)
  | RPost (ms : list msg) (rest : list item)                   (* sends after the critical section *)
  | RExit1 | RExit2 | RExit3                 (* deferred: close(doneResp); close(Errors); close(Events) *)
  | RDead.

  (* API callers (Add/Remove/WatchList) and closers *)
  Inductive cpc :=
  | CStart (c : C)                           (* about to test isClosed() *)
  | CWantLock (c : C)
  | CInCs (c : C)
  | CDone (r : R)
  | KStart                                   (* Close(): shared.close(): w.mu.Lock() *)
  | KInCs                                    (* holding mu: isClosed? close(done) *)
  | KCloseFile                               (* inotifyFile.Close() *)
  | KWaitResp                                (* <-w.doneResp *)
  | KDone.

  Record cstate := mkC {
    mu : option tid;                (* holder of w.mu; the reader is thread 0 *)
    done_closed : bool;
    file_closed : bool;
    resp_closed : bool;
    ev_buf : list E; ev_closed : bool;
    er_closed : bool;
    rd : rpc;
    thr : gmap tid cpc;             (* threads 1.. *)
    data : D;
    recvd_ev : list E;              (* what the consumer received on Events, in order *)
    recvd_er : list X;              (* … on Errors *)
    lin : list (C * R);             (* API calls in the order of their critical sections, with their results *)
    panicked : bool;                (* a send on / close of a closed channel *)
  }.

  Definition reader_tid : tid := 0.

  Inductive label :=
  | LThr (t : tid)                  (* thread t (0 = the reader) takes its next step *)
  | LConsumeEv                      (* the consumer receives from Events *)
  | LConsumeEr                      (* the consumer receives from Errors *)
  | LKernel (b : list item)         (* a read of the inotify descriptor returns a batch *)
  | LSpawn (t : tid) (p : cpc).     (* a new API call / Close call starts on thread t *)

  Definition upd_rd (s : cstate) (p : rpc) : cstate :=
    mkC (mu s) (done_closed s) (file_closed s) (resp_closed s) (ev_buf s) (ev_closed s) (er_closed s) p (thr s) (data s)
        (recvd_ev s) (recvd_er s) (lin s) (panicked s).
  Definition upd_thr (s : cstate) (t : tid) (p : cpc) : cstate :=
    mkC (mu s) (done_closed s) (file_closed s) (resp_closed s) (ev_buf s) (ev_closed s) (er_closed s) (rd s) (<[t := p]> (thr s))
        (data s) (recvd_ev s) (recvd_er s) (lin s) (panicked s).
  Definition upd_mu (s : cstate) (m : option tid) : cstate :=
    mkC m (done_closed s) (file_closed s) (resp_closed s) (ev_buf s) (ev_closed s) (er_closed s) (rd s) (thr s) (data s)
        (recvd_ev s) (recvd_er s) (lin s) (panicked s).

  (* where the reader goes after the message list of a phase is exhausted *)
  Definition after_pre (it : item) (rest : list item) : rpc := RWantLock it rest.
  Definition after_post (rest : list item) : rpc := RBatch rest.

  (* the reader's next step, when it is not a rendezvous with the consumer; None = blocked *)
  Definition reader_step (cap : nat) (cf : cfacts) (s : cstate) : option cstate :=
    match rd s with
    | RTop => Some (upd_rd s (if done_closed s then RExit1 else RRead))
    | RRead => if file_closed s then Some (upd_rd s RExit1) else None      (* Read fails with ErrClosed; else blocked *)
    | RBatch [] => Some (upd_rd s RTop)
    | RBatch (it :: rest) => Some (upd_rd s (RPre (it_pre it) it rest))
    | RPre [] it rest => Some (upd_rd s (after_pre it rest))
    | RPre (m :: ms) it rest =>
      (* select { case <-done: return false; case ch <- m: } — the done branch; the send branch is below / a rendezvous *)
      match m with
      | MEv e => if done_closed s then Some (upd_rd s RExit1)
                 else if decide (length (ev_buf s) < cap) then
                   Some (mkC (mu s) (done_closed s) (file_closed s) (resp_closed s) (ev_buf s ++ [e]) (ev_closed s) (er_closed s)
                             (RPre ms it rest) (thr s) (data s) (recvd_ev s) (recvd_er s) (lin s) (panicked s || ev_closed s))
                 else None
      | MEr _ => if done_closed s then Some (upd_rd s RExit1) else None
      end
    | RWantLock it rest => match mu s with None => Some (upd_mu (upd_rd s (RInCs it rest)) (Some reader_tid)) | Some _ => None end
    | RInCs it rest =>
      if cf_send_in_cs cf
      then Some (upd_rd s (RCsSend (err_msgs (it_post it)) (ev_msgs (it_post it)) rest))
      else Some (upd_mu (upd_rd s (RPost (it_post it) rest)) None)          (* Unlock, then send *)
    | RCsSend [] after rest => Some (upd_mu (upd_rd s (RPost after rest)) None)
    | RCsSend (m :: ms) after rest =>
      match m with
      | MEr _ => if done_closed s then Some (upd_mu (upd_rd s RExit1) None) else None    (* deferred Unlock on return *)
      | MEv _ => Some (upd_rd s (RCsSend ms after rest))
      end
    | RPost [] rest => Some (upd_rd s (after_post rest))
    | RPost (m :: ms) rest =>
      match m with
      | MEv e => if done_closed s then Some (upd_rd s RExit1)
                 else if decide (length (ev_buf s) < cap) then
                   Some (mkC (mu s) (done_closed s) (file_closed s) (resp_closed s) (ev_buf s ++ [e]) (ev_closed s) (er_closed s)
                             (RPost ms rest) (thr s) (data s) (recvd_ev s) (recvd_er s) (lin s) (panicked s || ev_closed s))
                 else None
      | MEr _ => if done_closed s then Some (upd_rd s RExit1) else None
      end
    | RExit1 => Some (mkC (mu s) (done_closed s) (file_closed s) true (ev_buf s) (ev_closed s) (er_closed s) RExit2 (thr s) (data s)
                          (recvd_ev s) (recvd_er s) (lin s) (panicked s || resp_closed s))
    | RExit2 => Some (mkC (mu s) (done_closed s) (file_closed s) (resp_closed s) (ev_buf s) (ev_closed s) true RExit3 (thr s) (data s)
                          (recvd_ev s) (recvd_er s) (lin s) (panicked s || er_closed s))
    | RExit3 => Some (mkC (mu s) (done_closed s) (file_closed s) (resp_closed s) (ev_buf s) true (er_closed s) RDead (thr s) (data s)
                          (recvd_ev s) (recvd_er s) (lin s) (panicked s || ev_closed s))
    | RDead => None
    end.

  (* a caller's / closer's next step; None = blocked or finished *)
  Definition thread_step (cf : cfacts) (s : cstate) (t : tid) : option cstate :=
    match thr s !! t with
    | None => None
    | Some p =>
      match p with
      | CStart c =>
        if cf_guard_first cf && done_closed s then Some (upd_thr s t (CDone (closed_result c)))
        else Some (upd_thr s t (CWantLock c))
      | CWantLock c => match mu s with None => Some (upd_mu (upd_thr s t (CInCs c)) (Some t)) | Some _ => None end
      | CInCs c =>
        let '(d', r) := api (data s) c in
        Some (mkC None (done_closed s) (file_closed s) (resp_closed s) (ev_buf s) (ev_closed s) (er_closed s) (rd s)
                  (<[t := CDone r]> (thr s)) d' (recvd_ev s) (recvd_er s) (lin s ++ [(c, r)]) (panicked s))
      | CDone _ => None
      | KStart => match mu s with None => Some (upd_mu (upd_thr s t KInCs) (Some t)) | Some _ => None end
      | KInCs =>
        if done_closed s
        then Some (upd_mu (upd_thr s t KDone) None)                                   (* already closed: return nil *)
        else Some (mkC None true (file_closed s) (resp_closed s) (ev_buf s) (ev_closed s) (er_closed s) (rd s)
                       (<[t := KCloseFile]> (thr s)) (data s) (recvd_ev s) (recvd_er s) (lin s) (panicked s))
      | KCloseFile => Some (mkC (mu s) (done_closed s) true (resp_closed s) (ev_buf s) (ev_closed s) (er_closed s) (rd s)
                                (<[t := KWaitResp]> (thr s)) (data s) (recvd_ev s) (recvd_er s) (lin s) (panicked s))
      | KWaitResp => if resp_closed s then Some (upd_thr s t KDone) else None
      | KDone => None
      end
    end.

  (* the consumer receives from Events: from the buffer, or directly from the reader blocked in an unbuffered send *)
  Definition consume_ev (s : cstate) : option cstate :=
    match ev_buf s with
    | e :: b => Some (mkC (mu s) (done_closed s) (file_closed s) (resp_closed s) b (ev_closed s) (er_closed s) (rd s) (thr s) (data s)
                          (recvd_ev s ++ [e]) (recvd_er s) (lin s) (panicked s))
    | [] =>
      match rd s with
      | RPre (MEv e :: ms) it rest =>
        Some (mkC (mu s) (done_closed s) (file_closed s) (resp_closed s) [] (ev_closed s) (er_closed s) (RPre ms it rest) (thr s) (data s)
                  (recvd_ev s ++ [e]) (recvd_er s) (lin s) (panicked s || ev_closed s))
      | RPost (MEv e :: ms) rest =>
        Some (mkC (mu s) (done_closed s) (file_closed s) (resp_closed s) [] (ev_closed s) (er_closed s) (RPost ms rest) (thr s) (data s)
                  (recvd_ev s ++ [e]) (recvd_er s) (lin s) (panicked s || ev_closed s))
      | _ => None
      end
    end.

  Definition consume_er (s : cstate) : option cstate :=
    match rd s with
    | RPre (MEr x :: ms) it rest =>
      Some (mkC (mu s) (done_closed s) (file_closed s) (resp_closed s) (ev_buf s) (ev_closed s) (er_closed s) (RPre ms it rest) (thr s) (data s)
                (recvd_ev s) (recvd_er s ++ [x]) (lin s) (panicked s || er_closed s))
    | RPost (MEr x :: ms) rest =>
      Some (mkC (mu s) (done_closed s) (file_closed s) (resp_closed s) (ev_buf s) (ev_closed s) (er_closed s) (RPost ms rest) (thr s) (data s)
                (recvd_ev s) (recvd_er s ++ [x]) (lin s) (panicked s || er_closed s))
    | RCsSend (MEr x :: ms) after rest =>
      Some (mkC (mu s) (done_closed s) (file_closed s) (resp_closed s) (ev_buf s) (ev_closed s) (er_closed s) (RCsSend ms after rest) (thr s) (data s)
                (recvd_ev s) (recvd_er s ++ [x]) (lin s) (panicked s || er_closed s))
    | _ => None
    end.

  Definition cstep (cap : nat) (cf : cfacts) (s : cstate) (l : label) : option cstate :=
    match l with
    | LThr t => if decide (t = reader_tid) then reader_step cap cf s else thread_step cf s t
    | LConsumeEv => consume_ev s
    | LConsumeEr => consume_er s
    | LKernel b => match rd s with RRead => if file_closed s then None else Some (upd_rd s (RBatch b)) | _ => None end
    | LSpawn t p =>
      if decide (t = reader_tid) then None
      else match thr s !! t, p with
           | None, CStart _ | None, KStart => Some (upd_thr s t p)
           | _, _ => None
           end
    end.

  Definition cinit (d : D) : cstate := mkC None false false false [] false false RTop ∅ d [] [] [] false.

  Fixpoint crun (cap : nat) (cf : cfacts) (s : cstate) (ls : list label) : option cstate :=
    match ls with
    | [] => Some s
    | l :: ls' => match cstep cap cf s l with Some s' => crun cap cf s' ls' | None => None end
    end.

  Definition reachable (cap : nat) (cf : cfacts) (d : D) (s : cstate) : Prop := ∃ ls, crun cap cf (cinit d) ls = Some s.

  (* everything the reader will still send for the work it has taken, in order (events only) *)
  Definition evs_of (ms : list msg) : list E := omap (λ m, match m with MEv e => Some e | _ => None end) ms.
  Definition ers_of (ms : list msg) : list X := omap (λ m, match m with MEr x => Some x | _ => None end) ms.
  Definition item_msgs (it : item) : list msg := it_pre it ++ it_post it.
End Conc.

Arguments cinit {E X D C R} d.
Arguments cstep {E X D C R} api closed_result cap cf s l.
Arguments crun {E X D C R} api closed_result cap cf s ls.
Arguments reachable {E X D C R} api closed_result cap cf d s.
