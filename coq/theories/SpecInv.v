(* SpecInv.v — the record SInv (SpecDefs.v) is an invariant of the specification (Spec.v); consequences:
   kernel watches and the watch list stay in step (C12), a watch descriptor is never reused, and kernel watch usage
   is flat across add/remove/delete/re-add cycles. *)
From stdpp Require Import gmap strings list.
From Fsn Require Import PathLex Bytes Tables Doc Watcher System Spec SpecDefs Refine.
Local Open Scope N_scope.

(* ------------------------------------------------------------------ bit facts *)
Section bits.
  Lemma has_any_false m k : has_any m k = false ↔ N.land m k = 0.
  Proof. unfold has_any. rewrite negb_false_iff. apply N.eqb_eq. Qed.

  Lemma has_any_lor_false m a b :
    has_any m (N.lor a b) = false → has_any m a = false ∧ has_any m b = false.
  Proof. rewrite !has_any_false, N.land_lor_distr_r. apply N.lor_eq_0_iff. Qed.

  Lemma has_all_false_of_any m k : k ≠ 0 → has_any m k = false → has_all m k = false.
  Proof. intros Hk H. apply has_any_false in H. unfold has_all. rewrite H. apply N.eqb_neq. congruence. Qed.

  Lemma land_pow2 m n : N.land m (2 ^ n) = if N.testbit m n then 2 ^ n else 0.
  Proof.
    apply N.bits_inj. intros i. rewrite N.land_spec, N.pow2_bits_eqb.
    destruct (N.eqb_spec n i) as [->|Hne].
    - destruct (N.testbit m i) eqn:E; simpl.
      + by rewrite N.pow2_bits_true.
      + by rewrite ?N.bits_0.
    - rewrite andb_false_r. destruct (N.testbit m n).
      + rewrite N.pow2_bits_false; done.
      + by rewrite ?N.bits_0.
  Qed.

  Lemma has_all_any_pow2 m n : has_all m (2 ^ n) = has_any m (2 ^ n).
  Proof.
    unfold has_all, has_any. rewrite land_pow2.
    assert (2 ^ n ≠ 0) as Hnz by (apply N.pow_nonzero; done).
    destruct (N.testbit m n).
    - rewrite N.eqb_refl. symmetry. apply negb_true_iff. by apply N.eqb_neq.
    - rewrite (N.eqb_refl 0). cbn [negb]. apply N.eqb_neq. congruence.
  Qed.

  Lemma has_all_any_DELETE_SELF m : has_all m IN_DELETE_SELF = has_any m IN_DELETE_SELF.
  Proof. change IN_DELETE_SELF with (2 ^ 10). apply has_all_any_pow2. Qed.
  Lemma has_all_any_MOVE_SELF m : has_all m IN_MOVE_SELF = has_any m IN_MOVE_SELF.
  Proof. change IN_MOVE_SELF with (2 ^ 11). apply has_all_any_pow2. Qed.
  Lemma has_all_any_IGNORED m : has_all m IN_IGNORED = has_any m IN_IGNORED.
  Proof. change IN_IGNORED with (2 ^ 15). apply has_all_any_pow2. Qed.
End bits.

(* a record the kernel only queues for a mark it has dropped *)
Definition dead (r : raw) : Prop :=
  has_any (r_mask r) IN_IGNORED = true ∨ has_any (r_mask r) IN_UNMOUNT = true ∨ has_all (r_mask r) IN_DELETE_SELF = true.

Lemma overflow_not_dead : ¬ dead overflow_rec.
Proof. intros [H|[H|H]]; vm_compute in H; done. Qed.

Lemma emit_not_dead r :
  has_any (r_mask r) (N.lor IN_IGNORED (N.lor IN_Q_OVERFLOW (N.lor IN_DELETE_SELF IN_UNMOUNT))) = false → ¬ dead r.
Proof.
  intros H. apply has_any_lor_false in H as [H1 H]. apply has_any_lor_false in H as [_ H].
  apply has_any_lor_false in H as [H2 H3].
  intros [D|[D|D]]; [congruence|congruence|]. rewrite has_all_any_DELETE_SELF in D. congruence.
Qed.

(* ------------------------------------------------------------------ lookups *)
Lemma find_mark_None k ino : find_mark k ino = None → ∀ wd, marks k !! wd ≠ Some ino.
Proof.
  unfold find_mark. intros H wd Hwd. apply fmap_None in H. apply head_None in H.
  assert (Hin : (wd, ino) ∈ filter (λ p : N * N, bool_decide (p.2 = ino)) (map_to_list (marks k))).
  { apply elem_of_list_filter. split; [by apply bool_decide_pack|]. by apply elem_of_map_to_list. }
  rewrite H in Hin. by apply elem_of_nil in Hin.
Qed.

Lemma find_path_Some A p wd : find_path A p = Some wd → ∃ x, A !! wd = Some x ∧ a_path x = p.
Proof.
  unfold find_path. destruct (head _) as [[w x]|] eqn:E; [|done]. simpl. intros [= <-].
  apply head_Some_elem_of in E. apply elem_of_list_filter in E as [P E].
  apply bool_decide_unpack in P. simpl in P. exists x. split; [by apply elem_of_map_to_list|done].
Qed.

Lemma find_path_None A p : find_path A p = None → ∀ wd x, A !! wd = Some x → a_path x ≠ p.
Proof.
  unfold find_path. intros H wd x Hwd Hp. apply fmap_None in H. apply head_None in H.
  assert (Hin : (wd, x) ∈ filter (λ e : N * aw, bool_decide (a_path e.2 = p)) (map_to_list A)).
  { apply elem_of_list_filter. split; [by apply bool_decide_pack|]. by apply elem_of_map_to_list. }
  rewrite H in Hin. by apply elem_of_nil in Hin.
Qed.

Lemma add_watch_cases k res k' r :
  add_watch k res = (k', r) →
  (∃ e, r = inl e ∧ k' = k) ∨
  (∃ wd ino, r = inr wd ∧ k' = k ∧ marks k !! wd = Some ino) ∨
  (∃ ino, r = inr (next_wd k) ∧
          k' = mkK (<[next_wd k := ino]> (marks k)) (N.succ (next_wd k)) (kq k) ∧
          ∀ wd, marks k !! wd ≠ Some ino).
Proof.
  unfold add_watch. destruct res as [e|ino].
  - intros [= <- <-]. left. by exists e.
  - destruct (find_mark k ino) as [wd|] eqn:E; intros [= <- <-]; right.
    + left. exists wd, ino. split_and!; [done|done|by apply find_mark_Some].
    + right. exists ino. split_and!; [done|done|by apply find_mark_None].
Qed.

Lemma rm_watch_cases k wd :
  (is_Some (marks k !! wd) ∧
   rm_watch k wd = (mkK (delete wd (marks k)) (next_wd k) (kq k ++ [ignored_rec wd]), None)) ∨
  (marks k !! wd = None ∧ rm_watch k wd = (k, Some EINVAL)).
Proof. unfold rm_watch. destruct (marks k !! wd) eqn:E; [left|right]; split; eauto. Qed.

(* ------------------------------------------------------------------ the invariant on (kernel, watch map) *)
Definition KI (k : kernel) (A : gmap N aw) : Prop := SInv (mkSpec k A init_ring [] []).

Lemma SInv_KI a : SInv a ↔ KI (sK a) (sA a).
Proof. split; intros [H1 H2 H3 H4 H5 H6 H7 H8]; constructor; simpl in *; done. Qed.

(* nothing below next_wd comes back *)
Definition mono (k : kernel) (A : gmap N aw) (k' : kernel) (A' : gmap N aw) : Prop :=
  next_wd k ≤ next_wd k' ∧
  ∀ wd, wd < next_wd k → (marks k !! wd = None → marks k' !! wd = None) ∧ (A !! wd = None → A' !! wd = None).

Definition tr (k : kernel) (A : gmap N aw) (k' : kernel) (A' : gmap N aw) : Prop := KI k' A' ∧ mono k A k' A'.

Lemma mono_refl k A : mono k A k A.
Proof. split; [lia|]. intros; done. Qed.

Lemma mono_trans k A k1 A1 k2 A2 : mono k A k1 A1 → mono k1 A1 k2 A2 → mono k A k2 A2.
Proof.
  intros [H1 H2] [H3 H4]. split; [lia|]. intros wd Hlt.
  destruct (H2 wd Hlt) as [Ha Hb]. destruct (H4 wd ltac:(lia)) as [Hc Hd]. split; auto.
Qed.

Lemma tr_refl k A : KI k A → tr k A k A.
Proof. intros H. split; [done|apply mono_refl]. Qed.

Lemma tr_trans k A k1 A1 k2 A2 : tr k A k1 A1 → (KI k1 A1 → tr k1 A1 k2 A2) → tr k A k2 A2.
Proof. intros [H1 H2] H. destruct (H H1) as [H3 H4]. split; [done|]. by eapply mono_trans. Qed.

(* a fresh kernel watch for a path that is not listed *)
Lemma tr_alloc k A ino x :
  KI k A → (∀ wd, marks k !! wd ≠ Some ino) → (∀ wd y, A !! wd = Some y → a_path y ≠ a_path x) →
  tr k A (mkK (<[next_wd k := ino]> (marks k)) (N.succ (next_wd k)) (kq k)) (<[next_wd k := x]> A).
Proof.
  intros [Hmw Hwm Hb Hqb Hqd Hinj Hp Hn] Hino Hpath; simpl in *.
  split; [constructor; simpl|].
  - intros wd Hs. destruct (decide (wd = next_wd k)) as [->|Hne].
    + rewrite lookup_insert. by eexists.
    + rewrite lookup_insert_ne in Hs by done. rewrite lookup_insert_ne by done. auto.
  - intros wd Hs Hm. destruct (decide (wd = next_wd k)) as [->|Hne].
    + by rewrite lookup_insert in Hm.
    + rewrite lookup_insert_ne in Hs by done. rewrite lookup_insert_ne in Hm by done. auto.
  - intros wd H. destruct (decide (wd = next_wd k)) as [->|Hne]; [lia|].
    rewrite !lookup_insert_ne in H by done. specialize (Hb wd H). lia.
  - intros r Hr. destruct (Hqb r Hr); [left; lia|by right].
  - intros r Hr Hd. destruct (Hqb r Hr) as [H| ->]; [|by destruct (overflow_not_dead Hd)].
    rewrite lookup_insert_ne by lia. by apply Hqd.
  - intros wd1 wd2 i H1 H2.
    apply lookup_insert_Some in H1 as [[<- <-]|[N1 H1]]; apply lookup_insert_Some in H2 as [[<- E2]|[N2 H2]].
    + done.
    + by destruct (Hino _ H2).
    + subst i. by destruct (Hino _ H1).
    + eauto.
  - intros wd1 wd2 x1 x2 H1 H2 E.
    apply lookup_insert_Some in H1 as [[<- <-]|[N1 H1]]; apply lookup_insert_Some in H2 as [[<- E2]|[N2 H2]].
    + done.
    + by destruct (Hpath _ _ H2).
    + subst x2. by destruct (Hpath _ _ H1).
    + eauto.
  - lia.
  - split; simpl; [lia|]. intros wd Hlt. rewrite !lookup_insert_ne by lia. done.
Qed.

(* the kernel drops a mark: [extra] (about that mark) and then IN_IGNORED are queued *)
Lemma tr_release k A wd extra :
  KI k A → is_Some (marks k !! wd) → (∀ r, r ∈ extra → r_wd r = wd) →
  tr k A (mkK (delete wd (marks k)) (next_wd k) (kq k ++ extra ++ [ignored_rec wd])) A.
Proof.
  intros [Hmw Hwm Hb Hqb Hqd Hinj Hp Hn] Hwd Hex; simpl in *.
  split; [constructor; simpl|].
  - intros w [i Hi]. apply lookup_delete_Some in Hi as [_ Hi]. apply Hmw. by eexists.
  - intros w Hs Hm. rewrite !elem_of_app, elem_of_list_singleton.
    apply lookup_delete_None in Hm as [<-|Hm]; [by right; right|]. left. auto.
  - intros w [[i Hi]|Hs]; apply Hb; [left|by right].
    apply lookup_delete_Some in Hi as [_ Hi]. by eexists.
  - intros r Hr. rewrite !elem_of_app, elem_of_list_singleton in Hr.
    destruct Hr as [Hr|[Hr| ->]]; [auto| |]; left.
    + rewrite (Hex r Hr). apply Hb. by left.
    + simpl. apply Hb. by left.
  - intros r Hr Hd. rewrite !elem_of_app, elem_of_list_singleton in Hr.
    destruct Hr as [Hr|[Hr| ->]].
    + apply lookup_delete_None. right. auto.
    + rewrite (Hex r Hr). apply lookup_delete.
    + simpl. apply lookup_delete.
  - intros wd1 wd2 i H1 H2. apply lookup_delete_Some in H1 as [_ H1]. apply lookup_delete_Some in H2 as [_ H2]. eauto.
  - exact Hp.
  - exact Hn.
  - split; simpl; [lia|]. intros w Hlt. split; [|done]. intros Hm. apply lookup_delete_None. by right.
Qed.

(* a path whose kernel watch is gone leaves the list *)
Lemma tr_del k A wd : KI k A → marks k !! wd = None → tr k A k (delete wd A).
Proof.
  intros [Hmw Hwm Hb Hqb Hqd Hinj Hp Hn] Hwd; simpl in *.
  split; [constructor; simpl|].
  - intros w Hs. destruct (decide (w = wd)) as [->|Hne].
    + rewrite Hwd in Hs. by apply is_Some_None in Hs.
    + rewrite lookup_delete_ne by done. auto.
  - intros w [y Hy] Hm. apply lookup_delete_Some in Hy as [_ Hy]. apply Hwm; [by eexists|done].
  - intros w [Hs|[y Hy]]; apply Hb; [by left|right].
    apply lookup_delete_Some in Hy as [_ Hy]. by eexists.
  - exact Hqb.
  - exact Hqd.
  - exact Hinj.
  - intros wd1 wd2 x1 x2 H1 H2. apply lookup_delete_Some in H1 as [_ H1]. apply lookup_delete_Some in H2 as [_ H2]. eauto.
  - exact Hn.
  - split; [lia|]. intros w Hlt. split; [done|]. intros Hm. apply lookup_delete_None. by right.
Qed.

(* the reader takes the head of the queue *)
Lemma tr_pop k A r q :
  KI k A → kq k = r :: q → (A !! r_wd r = None ∨ has_any (r_mask r) IN_IGNORED = false) →
  tr k A (mkK (marks k) (next_wd k) q) A.
Proof.
  intros [Hmw Hwm Hb Hqb Hqd Hinj Hp Hn] Hq Hc; simpl in *. rewrite Hq in *.
  split; [constructor; simpl|].
  - exact Hmw.
  - intros w Hs Hm. specialize (Hwm w Hs Hm). apply elem_of_cons in Hwm as [E|Hin]; [|done].
    exfalso. subst r. simpl in Hc. destruct Hc as [Hc|Hc].
    + rewrite Hc in Hs. by apply is_Some_None in Hs.
    + vm_compute in Hc. done.
  - exact Hb.
  - intros r' Hr. apply Hqb. by right.
  - intros r' Hr. apply Hqd. by right.
  - exact Hinj.
  - exact Hp.
  - exact Hn.
  - split; simpl; [lia|]. intros; done.
Qed.

(* the kernel queues a record *)
Lemma tr_emit k A r :
  KI k A → (r_wd r < next_wd k ∨ r = overflow_rec) → (dead r → marks k !! r_wd r = None) → tr k A (k_emit k r) A.
Proof.
  intros [Hmw Hwm Hb Hqb Hqd Hinj Hp Hn] Hbd Hdead; simpl in *.
  split; [constructor; simpl|].
  - exact Hmw.
  - intros w Hs Hm. apply elem_of_app. left. auto.
  - exact Hb.
  - intros r' Hr. apply elem_of_app in Hr as [Hr|Hr]; [auto|]. apply elem_of_list_singleton in Hr as ->. done.
  - intros r' Hr Hd. apply elem_of_app in Hr as [Hr|Hr]; [auto|]. apply elem_of_list_singleton in Hr as ->. auto.
  - exact Hinj.
  - exact Hp.
  - exact Hn.
  - split; simpl; [lia|]. intros; done.
Qed.

Lemma tr_rm k A wd : KI k A → tr k A (rm_watch k wd).1 A.
Proof.
  intros HI. destruct (rm_watch_cases k wd) as [[Hs ->]|[Hn ->]]; simpl.
  - apply (tr_release k A wd [] HI Hs). intros r Hr. by apply elem_of_nil in Hr.
  - by apply tr_refl.
Qed.

Lemma rm_watch_marks_None k wd : marks (rm_watch k wd).1 !! wd = None.
Proof. destruct (rm_watch_cases k wd) as [[Hs ->]|[Hn ->]]; simpl; [apply lookup_delete|done]. Qed.

Lemma rm_watch_marks_sub k wd w i : marks (rm_watch k wd).1 !! w = Some i → marks k !! w = Some i.
Proof.
  destruct (rm_watch_cases k wd) as [[Hs ->]|[Hn ->]]; simpl; [|done].
  intros H. by apply lookup_delete_Some in H as [_ H].
Qed.

Lemma rm_watch_next k wd : next_wd (rm_watch k wd).1 = next_wd k.
Proof. by destruct (rm_watch_cases k wd) as [[Hs ->]|[Hn ->]]. Qed.

(* release the kernel watch (if there still is one) and drop the path *)
Lemma tr_rm_del k A wd : KI k A → tr k A (rm_watch k wd).1 (delete wd A).
Proof.
  intros HI. eapply tr_trans; [by apply tr_rm|]. intros HI1. apply tr_del; [done|apply rm_watch_marks_None].
Qed.

Lemma rm_watch_alloc_comm k ino wd0 :
  wd0 ≠ next_wd k →
  (rm_watch (mkK (<[next_wd k := ino]> (marks k)) (N.succ (next_wd k)) (kq k)) wd0).1 =
  mkK (<[next_wd (rm_watch k wd0).1 := ino]> (marks (rm_watch k wd0).1))
      (N.succ (next_wd (rm_watch k wd0).1)) (kq (rm_watch k wd0).1).
Proof.
  intros Hne. unfold rm_watch. simpl. rewrite lookup_insert_ne by done.
  destruct (marks k !! wd0); simpl; [|done]. by rewrite delete_insert_ne by done.
Qed.

(* ------------------------------------------------------------------ Add / Remove *)
Lemma spec_add_core_tr k A path flags res k' A' r :
  KI k A → spec_add_core k A path flags res = (k', A', r) → tr k A k' A'.
Proof.
  intros HI.
  pose proof (si_marks_watched _ HI) as Hmw. pose proof (si_bound _ HI) as Hb.
  pose proof (si_paths _ HI) as Hp. simpl in Hmw, Hb, Hp.
  assert (HAn : A !! next_wd k = None).
  { destruct (A !! next_wd k) as [y|] eqn:E; [|done].
    assert (0 < next_wd k < next_wd k) by (apply Hb; right; by eexists). lia. }
  unfold spec_add_core. destruct (find_path A path) as [wd0|] eqn:Ef; simpl.
  - destruct (find_path_Some _ _ _ Ef) as (x0 & Hx0 & Hp0). rewrite Hx0.
    destruct (add_watch k _) as [K1 r1] eqn:Ea.
    apply add_watch_cases in Ea as [(e & -> & ->)|[(wd & ino & -> & -> & Hm)|(ino & -> & -> & Hino)]].
    + intros [= <- <- <-]. by apply tr_refl.
    + destruct (N.eqb_spec wd0 wd) as [->|Hne].
      * rewrite Hx0. intros [= <- <- <-]. by apply tr_refl.
      * destruct (Hmw wd) as [y Hy]; [by eexists|].
        rewrite lookup_delete_ne by done. rewrite Hy. intros [= <- <- <-]. by apply tr_rm_del.
    + assert (wd0 ≠ next_wd k) as Hne by (intros ->; rewrite HAn in Hx0; done).
      destruct (N.eqb_spec wd0 (next_wd k)) as [E|_]; [done|].
      rewrite lookup_delete_ne by done. rewrite HAn. intros [= <- <- <-].
      eapply tr_trans; [by apply (tr_rm_del k A wd0)|]. intros HI1.
      rewrite rm_watch_alloc_comm by done. rewrite <- (rm_watch_next k wd0).
      apply tr_alloc; [done| |].
      * intros w Hw. apply rm_watch_marks_sub in Hw. by destruct (Hino w).
      * intros w y Hy Hpy. simpl in Hpy. apply lookup_delete_Some in Hy as [Hw Hy].
        apply Hw. eapply Hp; [exact Hx0|exact Hy|congruence].
  - destruct (add_watch k _) as [K1 r1] eqn:Ea.
    apply add_watch_cases in Ea as [(e & -> & ->)|[(wd & ino & -> & -> & Hm)|(ino & -> & -> & Hino)]].
    + intros [= <- <- <-]. by apply tr_refl.
    + destruct (Hmw wd) as [y Hy]; [by eexists|]. rewrite Hy. intros [= <- <- <-]. by apply tr_refl.
    + rewrite HAn. intros [= <- <- <-]. apply tr_alloc; [done|done|].
      intros w y Hy. simpl. by apply (find_path_None _ _ Ef w).
Qed.

Lemma spec_remove_core_tr k A path k' A' r :
  KI k A → spec_remove_core k A path = (k', A', r) → tr k A k' A'.
Proof.
  intros HI. unfold spec_remove_core. destruct (find_path A path) as [wd|].
  - pose proof (tr_rm_del k A wd HI) as H. destruct (rm_watch k wd) as [K1 e]. by intros [= <- <- <-].
  - intros [= <- <- <-]. by apply tr_refl.
Qed.

(* ------------------------------------------------------------------ handling one notification *)
Lemma spec_handle_tr k A R o h r q :
  KI k A → kq k = r :: q →
  tr k A (sK (spec_handle (mkSpec k A R o h) r q)) (sA (spec_handle (mkSpec k A R o h) r q)).
Proof.
  intros HI Hq.
  pose proof (si_queue_dead _ HI) as Hqd. simpl in Hqd.
  assert (Hin : r ∈ kq k) by (rewrite Hq; left).
  unfold spec_handle. simpl. destruct (A !! r_wd r) as [x|] eqn:Ex.
  2: { simpl. apply (tr_pop k A r q HI Hq). by left. }
  destruct (has_any (r_mask r) IN_IGNORED || has_any (r_mask r) IN_UNMOUNT) eqn:Eh; simpl.
  { assert (marks k !! r_wd r = None) as Hm.
    { apply Hqd; [done|]. apply orb_true_iff in Eh as [E|E]; auto. }
    eapply tr_trans; [by apply (tr_del k A (r_wd r))|]. intros HI1.
    apply (tr_pop k _ r q HI1 Hq). left. apply lookup_delete. }
  apply orb_false_iff in Eh as [Ei Eu].
  unfold spec_end_of_watch.
  destruct (spec_deliver _ _ _ _ _) as [R1 o1]. simpl.
  destruct (has_all (r_mask r) IN_DELETE_SELF) eqn:Ed; destruct (has_all (r_mask r) IN_MOVE_SELF) eqn:Em; simpl.
  - assert (marks k !! r_wd r = None) as Hm by (apply Hqd; auto).
    eapply tr_trans; [by apply (tr_del k A (r_wd r))|]. intros HI1.
    apply (tr_pop k _ r q HI1 Hq). left. apply lookup_delete.
  - assert (marks k !! r_wd r = None) as Hm by (apply Hqd; auto).
    eapply tr_trans; [by apply (tr_del k A (r_wd r))|]. intros HI1.
    apply (tr_pop k _ r q HI1 Hq). left. apply lookup_delete.
  - eapply tr_trans; [apply (tr_pop k A r q HI Hq); by right|]. intros HI1. by apply tr_rm_del.
  - apply (tr_pop k A r q HI Hq). by right.
Qed.

(* ------------------------------------------------------------------ one step *)
Lemma spec_step_tr a st :
  SInv a → spec_env_ok a st = true → is_inject st = false →
  tr (sK a) (sA a) (sK (spec_step a st).1) (sA (spec_step a st).1).
Proof.
  intros HS Henv Hinj. apply SInv_KI in HS. destruct a as [k A R o h]. simpl in HS.
  destruct st as [arg ops nf walk|arg| |r|wd ds| |dirs|r dirs]; simpl in *.
  - destruct walk as [|[p0 res] walk']; [by apply tr_refl|].
    unfold spec_add. simpl.
    destruct (spec_add_core k A (clean arg) (request_flags ops nf) res) as [[k' A'] r'] eqn:E. simpl.
    by eapply spec_add_core_tr.
  - unfold spec_remove. simpl.
    destruct (spec_remove_core k A (clean arg)) as [[k' A'] r'] eqn:E. simpl.
    by eapply spec_remove_core_tr.
  - by apply tr_refl.
  - apply andb_true_iff in Henv as [Henv _]. apply andb_true_iff in Henv as [H1 H2].
    apply bool_decide_eq_true in H1. apply negb_true_iff in H2.
    apply tr_emit; [done| |].
    + left. apply (si_bound _ HS). by left.
    + intros Hd. by destruct (emit_not_dead _ H2).
  - apply bool_decide_eq_true in Henv.
    apply (tr_release k A wd (if ds then [delete_self_rec wd] else []) HS Henv).
    intros r Hr. destruct ds; [by apply elem_of_list_singleton in Hr as ->|by apply elem_of_nil in Hr].
  - apply tr_emit; [done|by right|]. intros Hd. by destruct (overflow_not_dead Hd).
  - destruct (kq k) as [|r q] eqn:Eq; [by apply tr_refl|]. simpl. by apply spec_handle_tr.
  - done.
Qed.

(* ------------------------------------------------------------------ the invariant *)
Lemma spec_inv_init : SInv init_spec.
Proof.
  constructor; simpl.
  - intros wd Hs. rewrite lookup_empty in Hs. by apply is_Some_None in Hs.
  - intros wd Hs. rewrite lookup_empty in Hs. by apply is_Some_None in Hs.
  - intros wd [Hs|Hs]; rewrite lookup_empty in Hs; by apply is_Some_None in Hs.
  - intros r Hr. by apply elem_of_nil in Hr.
  - intros r Hr. by apply elem_of_nil in Hr.
  - intros wd1 wd2 i H. by rewrite lookup_empty in H.
  - intros wd1 wd2 x1 x2 H. by rewrite lookup_empty in H.
  - lia.
Qed.

Theorem spec_inv_step : forall a st,
  SInv a -> spec_env_ok a st = true -> is_inject st = false -> SInv (spec_step a st).1.
Proof.
  intros a st HS Henv Hinj. apply SInv_KI. by destruct (spec_step_tr a st HS Henv Hinj) as [H _].
Qed.

Lemma spec_run_cons st h a : (spec_run (st :: h) a).1 = (spec_run h (spec_step a st).1).1.
Proof.
  simpl. destruct (spec_step a st) as [s1 r]. simpl. destruct (spec_run h s1) as [s2 rs].
  done.
Qed.

Lemma spec_valid_cons st h a :
  spec_valid (st :: h) a = true →
  spec_env_ok a st = true ∧ is_inject st = false ∧ spec_valid h (spec_step a st).1 = true.
Proof.
  simpl. intros H. apply andb_true_iff in H as [H H3]. apply andb_true_iff in H as [H1 H2].
  apply negb_true_iff in H2. done.
Qed.

Theorem spec_inv_run : forall h a, SInv a -> spec_valid h a = true -> SInv (spec_run h a).1.
Proof.
  induction h as [|st h IH]; intros a HS Hv; [exact HS|].
  apply spec_valid_cons in Hv as (H1 & H2 & H3). rewrite spec_run_cons.
  apply IH; [by apply spec_inv_step|done].
Qed.

(* ------------------------------------------------------------------ kernel watches and bookkeeping stay in step *)
Theorem C12_quiescent : forall a, SInv a -> kq (sK a) = [] -> dom (marks (sK a)) ≡@{gset N} dom (sA a).
Proof.
  intros a HS Hq wd. rewrite !elem_of_dom. split.
  - apply (si_marks_watched _ HS).
  - intros Hs. destruct (marks (sK a) !! wd) as [i|] eqn:E; [by eexists|].
    pose proof (si_watched_marks _ HS wd Hs E) as Hin. rewrite Hq in Hin. by apply elem_of_nil in Hin.
Qed.

Lemma spec_list_NoDup a : SInv a → NoDup (spec_list (sA a)).
Proof.
  intros HS. unfold spec_list. rewrite <- list_fmap_compose.
  apply NoDup_fmap_2_strong; [|apply NoDup_map_to_list].
  intros [w1 a1] [w2 a2] H1 H2 E. simpl in E. apply elem_of_map_to_list in H1, H2.
  assert (w1 = w2) as -> by (by eapply (si_paths _ HS)).
  rewrite H1 in H2. by inversion H2.
Qed.

Lemma spec_list_length A : length (spec_list A) = size A.
Proof. unfold spec_list. rewrite !fmap_length. done. Qed.

Corollary C12_in_step : forall h,
  spec_valid h init_spec = true ->
  let a := (spec_run h init_spec).1 in
  kq (sK a) = [] ->
  dom (marks (sK a)) ≡@{gset N} dom (sA a) /\ NoDup (spec_list (sA a)) /\ length (spec_list (sA a)) = size (sA a).
Proof.
  intros h Hv a Hq.
  assert (HS : SInv a) by (apply spec_inv_run; [apply spec_inv_init|done]).
  split_and!; [by apply C12_quiescent|by apply spec_list_NoDup|apply spec_list_length].
Qed.

(* ------------------------------------------------------------------ a watch descriptor is never reused *)
Theorem wd_never_returns_step : forall a st wd,
  SInv a -> spec_env_ok a st = true -> is_inject st = false ->
  wd < next_wd (sK a) -> marks (sK a) !! wd = None ->
  marks (sK (spec_step a st).1) !! wd = None /\
  (sA a !! wd = None -> sA (spec_step a st).1 !! wd = None) /\
  wd < next_wd (sK (spec_step a st).1).
Proof.
  intros a st wd HS Henv Hinj Hlt Hm.
  destruct (spec_step_tr a st HS Henv Hinj) as [_ [Hn Hmono]].
  destruct (Hmono wd Hlt) as [H1 H2]. split_and!; [auto|auto|lia].
Qed.

Corollary wd_never_returns : forall h a wd,
  SInv a -> spec_valid h a = true ->
  wd < next_wd (sK a) -> marks (sK a) !! wd = None -> sA a !! wd = None ->
  sA (spec_run h a).1 !! wd = None /\ marks (sK (spec_run h a).1) !! wd = None.
Proof.
  induction h as [|st h IH]; intros a wd HS Hv Hlt Hm HA; [simpl; split; assumption|].
  apply spec_valid_cons in Hv as (H1 & H2 & H3). rewrite spec_run_cons.
  destruct (wd_never_returns_step a st wd HS H1 H2 Hlt Hm) as (Hm' & HA' & Hlt').
  apply IH; [by apply spec_inv_step|done|done|done|auto].
Qed.

(* ------------------------------------------------------------------ kernel watch usage is flat *)
Theorem cycles_are_flat : forall h a,
  SInv a -> spec_valid h a = true -> kq (sK (spec_run h a).1) = [] ->
  size (marks (sK (spec_run h a).1)) = size (sA (spec_run h a).1).
Proof.
  intros h a HS Hv Hq.
  pose proof (C12_quiescent _ (spec_inv_run h a HS Hv) Hq) as Hd.
  apply leibniz_equiv in Hd.
  rewrite <- (size_dom (D := gset N) (marks (sK (spec_run h a).1))).
  rewrite <- (size_dom (D := gset N) (sA (spec_run h a).1)).
  by rewrite Hd.
Qed.

Print Assumptions spec_inv_step.
Print Assumptions C12_quiescent.
