(* ConcSafety.v — safety theorems about the goroutine-level model of Conc.v, for every capacity of Events, every
   pair of code facts, every schedule (label sequence), every number of callers and closers, every consumer pace. *)
From stdpp Require Import gmap list.
From Fsn Require Import Conc ConcDefs.
Local Open Scope nat_scope.

Section Safety.
  Context {E X D C R I K : Type}.
  Variable api : D → C → D * R.
  Variable closed_result : C → R.
  Variable pre : I → list (@msg E X).
  Variable hnd : D → I → D * list (@msg E X).
  Variable env : D → K → option D.
  Notation cstate := (@cstate E X D C R I K).
  Notation rpc := (@rpc E X I).
  Notation cpc := (@cpc C R).
  Notation label := (@label C R I K).
  Notation linent := (@linent E X C R I K).
  Notation msg := (@msg E X).
  Notation cstep := (@cstep E X D C R I K api closed_result pre hnd env).
  Notation crun := (@crun E X D C R I K api closed_result pre hnd env).
  Notation reachable := (@reachable E X D C R I K api closed_result pre hnd env).
  Notation thread_step := (@thread_step E X D C R I K api closed_result).
  Notation reader_step := (@reader_step E X D C R I K pre hnd).
  Notation cinit := (@cinit E X D C R I K).
  Notation seq_run := (@seq_run E X D C R I K api hnd env).
  Notation seq_results_ok := (@seq_results_ok E X D C R I K api hnd env).
  Notation entry_ok := (@entry_ok E X D C R I K api hnd env).
  Notation stream := (@stream E X D C R I K pre).
  Notation lin_msgs := (@lin_msgs E X C R I K pre).

  (* ---------- runs ---------- *)
  Lemma crun_snoc cap cf (s : cstate) ls l :
    crun cap cf s (ls ++ [l]) = crun cap cf s ls ≫= λ s', cstep cap cf s' l.
  Proof.
    revert s; induction ls as [|l0 ls IH]; intros s; simpl.
    - destruct (cstep cap cf s l); done.
    - destruct (cstep cap cf s l0); auto.
  Qed.

  Lemma reachable_init cap cf d : reachable cap cf d (cinit d).
  Proof. by exists []. Qed.

  Lemma reachable_step cap cf d s l s' :
    reachable cap cf d s → cstep cap cf s l = Some s' → reachable cap cf d s'.
  Proof. intros [ls Hr] Hs. exists (ls ++ [l]). rewrite crun_snoc, Hr. done. Qed.

  Lemma reachable_induction cap cf d (P : cstate → Prop) :
    P (cinit d) →
    (∀ s l s', reachable cap cf d s → P s → cstep cap cf s l = Some s' → P s') →
    ∀ s, reachable cap cf d s → P s.
  Proof.
    intros H0 HS s [ls Hr]. revert s Hr.
    induction ls as [|l ls IH] using rev_ind; intros s Hr.
    - simpl in Hr. by simplify_eq.
    - rewrite crun_snoc in Hr. destruct (crun cap cf (cinit d) ls) as [s0|] eqn:Hr0; [|done].
      simpl in Hr. eapply HS; [by exists ls| by apply IH |done].
  Qed.

  (* ---------- 1. the protocol invariant is inductive ---------- *)
  Lemma cinv_init cap d : CInv cap (cinit d).
  Proof.
    constructor; simpl; try done; try (intros; simplify_map_eq; done); try lia.
    - intros t Ht. split; [done|]. intros (p & Hp & _). by simplify_map_eq.
    - intros [|[|]]; done.
  Qed.

  Lemma cinv_reader cap cf s s' : CInv cap s → reader_step cap cf s = Some s' → CInv cap s'.
  Proof.
    intros [H1 H2 H3 H4 H5 H6 H7 H8 H9 H10 H11 H12 H13] Hs.
    destruct s as [m dc fc rc eb ec erc r th dt rev rer ln st pk]; simpl in *.
    unfold reader_step in Hs; simpl in Hs.
    destruct r; repeat case_match; simplify_eq; constructor; simpl in *.
    all: try done.
    all: unfold after_pre, after_post in *.
    all: try (rewrite ?app_length; simpl; lia).
    all: try (apply not_true_is_false; intros ?).
    all: try (intuition congruence).
    all: try (intros t Ht; specialize (H2 t Ht); destruct H1 as [H1a H1b]; split;
              [intros ?; simplify_eq; done | intros Hp; apply H2 in Hp; try specialize (H1b eq_refl); congruence]).
  Qed.

  Lemma cinv_thread cap cf s t s' : t ≠ reader_tid → CInv cap s → thread_step cf s t = Some s' → CInv cap s'.
  Proof.
    intros Ht [H1 H2 H3 H4 H5 H6 H7 H8 H9 H10 H11 H12 H13] Hs.
    destruct s as [m dc fc rc eb ec erc r th dt rev rer ln st pk]; simpl in *.
    unfold Conc.thread_step in Hs; simpl in Hs.
    destruct (th !! t) as [p|] eqn:Hp; [|done].
    pose proof (H2 t Ht) as H2t. rewrite Hp in H2t.
    destruct p; repeat case_match; simplify_eq; constructor; simpl in *.
    all: try done.
    all: try (rewrite lookup_insert_ne by done; done).
    all: try (intros _; eapply H12; [exact Hp| tauto]).
    all: try (intros t0 p0 Hl Hk; destruct (decide (t0 = t)) as [->|Hne];
              [rewrite lookup_insert in Hl; simplify_eq; try (eapply H12; [exact Hp| tauto]); naive_solver
              |rewrite lookup_insert_ne in Hl by done; eapply H12; eauto]).
    all: try (intros t0 Hl; destruct (decide (t0 = t)) as [->|Hne];
              [rewrite lookup_insert in Hl; simplify_eq; try (eapply H13; exact Hp)
              |rewrite lookup_insert_ne in Hl by done; eapply H13; eauto]).
    all: try (try (assert (m = Some t) as Hm by (apply H2t; eexists; split; [reflexivity|done]));
              split; [intros ?; congruence | intros Hr; apply H1 in Hr; congruence]).
    all: try (intros t0 Ht0; pose proof (H2 t0 Ht0) as H2a; destruct (decide (t0 = t)) as [->|Hne];
              [rewrite lookup_insert; clear -H2a H2t Ht Ht0 | rewrite lookup_insert_ne by done; clear -H2a H2t Ht Ht0 Hne];
              timeout 20 naive_solver).
  Qed.

  Ltac cinv_fin :=
    try done; try (rewrite ?app_length in *; simpl in *; lia);
    try (apply not_true_is_false; intros ?); try (intuition congruence).

  Lemma cinv_consume_ev cap (s s' : cstate) : CInv cap s → consume_ev s = Some s' → CInv cap s'.
  Proof.
    intros [H1 H2 H3 H4 H5 H6 H7 H8 H9 H10 H11 H12 H13] Hs.
    destruct s as [m dc fc rc eb ec erc r th dt rev rer ln st pk]; simpl in *.
    unfold consume_ev in Hs; simpl in Hs.
    repeat case_match; simplify_eq; constructor; simpl in *.
    all: cinv_fin.
  Qed.

  Lemma cinv_consume_er cap (s s' : cstate) : CInv cap s → consume_er s = Some s' → CInv cap s'.
  Proof.
    intros [H1 H2 H3 H4 H5 H6 H7 H8 H9 H10 H11 H12 H13] Hs.
    destruct s as [m dc fc rc eb ec erc r th dt rev rer ln st pk]; simpl in *.
    unfold consume_er in Hs; simpl in Hs.
    repeat case_match; simplify_eq; constructor; simpl in *.
    all: cinv_fin.
  Qed.

  Lemma cinv_kernel cap cf s b s' : CInv cap s → cstep cap cf s (LKernel b) = Some s' → CInv cap s'.
  Proof.
    intros [H1 H2 H3 H4 H5 H6 H7 H8 H9 H10 H11 H12 H13] Hs.
    destruct s as [m dc fc rc eb ec erc r th dt rev rer ln st pk]; simpl in *.
    repeat case_match; simplify_eq; constructor; simpl in *.
    all: cinv_fin.
  Qed.

  Lemma cinv_spawn cap cf s t p s' : CInv cap s → cstep cap cf s (LSpawn t p) = Some s' → CInv cap s'.
  Proof.
    intros [H1 H2 H3 H4 H5 H6 H7 H8 H9 H10 H11 H12 H13] Hs.
    destruct s as [m dc fc rc eb ec erc r th dt rev rer ln st pk]; simpl in *.
    destruct (decide (t = reader_tid)) as [|Ht]; [done|].
    destruct (th !! t) eqn:Hp; [by destruct p|].
    assert (∃ s0, Some s0 = Some s' ∧ s0 = upd_thr (mkC m dc fc rc eb ec erc r th dt rev rer ln st pk) t p
            ∧ thread_in_cs p = false ∧ p ≠ KCloseFile ∧ p ≠ KWaitResp ∧ p ≠ KDone) as (s0 & Hs0 & -> & Hc & Hk1 & Hk2 & Hk3).
    { destruct p; try done; eexists; split; try exact Hs; done. }
    clear Hs. simplify_eq. unfold upd_thr. constructor; simpl in *.
    all: cinv_fin.
    - intros t0 Ht0. specialize (H2 t0 Ht0). destruct (decide (t0 = t)) as [->|Hne].
      + rewrite lookup_insert. rewrite Hp in H2. split.
        * intros Hm. apply H2 in Hm as (? & ? & _). done.
        * intros (p0 & ? & ?). simplify_eq. congruence.
      + by rewrite lookup_insert_ne.
    - by rewrite lookup_insert_ne.
    - intros t0 p0 Hl Hk. destruct (decide (t0 = t)) as [->|Hne].
      + rewrite lookup_insert in Hl. simplify_eq. tauto.
      + rewrite lookup_insert_ne in Hl by done. eauto.
    - intros t0 Hl. destruct (decide (t0 = t)) as [->|Hne].
      + rewrite lookup_insert in Hl. simplify_eq.
      + rewrite lookup_insert_ne in Hl by done. eauto.
  Qed.

  (* an environment step changes the data (and the ghost lin) only *)
  Lemma cinv_env cap cf s k s' : CInv cap s → cstep cap cf s (LEnv k) = Some s' → CInv cap s'.
  Proof.
    intros [H1 H2 H3 H4 H5 H6 H7 H8 H9 H10 H11 H12 H13] Hs.
    destruct s as [m dc fc rc eb ec erc r th dt rev rer ln st pk]; simpl in *.
    destruct (env dt k) as [d'|]; [|done]. simplify_eq. by constructor.
  Qed.

  Theorem cinv_step cap cf s l s' : CInv cap s → cstep cap cf s l = Some s' → CInv cap s'.
  Proof.
    intros HI Hs. destruct l as [t| | |b|t p|k].
    - simpl in Hs. destruct (decide (t = reader_tid)) as [->|Ht].
      + by eapply cinv_reader.
      + by eapply cinv_thread.
    - by eapply cinv_consume_ev.
    - by eapply cinv_consume_er.
    - by eapply cinv_kernel.
    - by eapply cinv_spawn.
    - by eapply cinv_env.
  Qed.

  Theorem cinv_reachable cap cf d s : reachable cap cf d s → CInv cap s.
  Proof.
    revert s. apply reachable_induction; [apply cinv_init|].
    intros s l s' _ HI Hs. by eapply cinv_step.
  Qed.

  (* ---------- 2. no panic ---------- *)
  Theorem no_panic cap cf d s : reachable cap cf d s → panicked s = false.
  Proof. intros Hr. by apply (ci_no_panic _ _ (cinv_reachable _ _ _ _ Hr)). Qed.

  (* ---------- 3. mutual exclusion ---------- *)
  Lemma cinv_holder_thread cap (s : cstate) t p :
    CInv cap s → thr s !! t = Some p → thread_in_cs p = true → t ≠ reader_tid ∧ mu s = Some t.
  Proof.
    intros HI Hp Hc. assert (t ≠ reader_tid) as Ht.
    { intros ->. rewrite (ci_no_reader_thread _ _ HI) in Hp. done. }
    split; [done|]. apply (ci_thread_mu _ _ HI t Ht). eauto.
  Qed.

  Theorem mutual_exclusion cap cf d s :
    reachable cap cf d s →
    (∀ t1 t2, mu s = Some t1 → mu s = Some t2 → t1 = t2) ∧
    (∀ t1 t2 p1 p2, thr s !! t1 = Some p1 → thr s !! t2 = Some p2 →
                    thread_in_cs p1 = true → thread_in_cs p2 = true → t1 = t2) ∧
    (∀ t p, thr s !! t = Some p → thread_in_cs p = true → reader_in_cs (rd s) = false).
  Proof.
    intros Hr. pose proof (cinv_reachable _ _ _ _ Hr) as HI. split; [|split].
    - intros t1 t2 H1 H2. congruence.
    - intros t1 t2 p1 p2 Hp1 Hp2 Hc1 Hc2.
      destruct (cinv_holder_thread _ _ _ _ HI Hp1 Hc1) as [_ Hm1].
      destruct (cinv_holder_thread _ _ _ _ HI Hp2 Hc2) as [_ Hm2]. congruence.
    - intros t p Hp Hc. destruct (cinv_holder_thread _ _ _ _ HI Hp Hc) as [Ht Hm].
      apply not_true_is_false. intros Hrd. apply (ci_reader_mu _ _ HI) in Hrd. congruence.
  Qed.

  (* ---------- 4. nothing blocks inside a critical section ---------- *)
  Ltac step_cases Hs :=
    match type of Hs with
    | Conc.cstep _ _ _ _ _ _ _ ?s ?l = Some _ =>
      destruct s as [m dc fc rc eb ec erc r th dt rev rer ln st pk]; destruct l as [t| | |b|t p|k]; simpl in Hs;
      unfold Conc.reader_step, Conc.thread_step, consume_ev, consume_er, upd_thr, upd_rd, upd_mu, after_pre, after_post in Hs;
      simpl in Hs;
      repeat (match type of Hs with context [ match ?x with _ => _ end ] => destruct x eqn:? end;
              simpl in Hs; try discriminate Hs);
      simplify_eq
    end.

  Definition is_cssend (p : rpc) : bool := match p with RCsSend _ _ _ => true | _ => false end.

  Lemma no_cssend_step cap cf s l s' :
    cf_send_in_cs cf = false → is_cssend (rd s) = false → cstep cap cf s l = Some s' → is_cssend (rd s') = false.
  Proof. intros Hcf Hc Hs. step_cases Hs; simpl in *; done. Qed.

  Lemma no_cssend_reachable cap cf d s :
    cf_send_in_cs cf = false → reachable cap cf d s → is_cssend (rd s) = false.
  Proof.
    intros Hcf. revert s. apply reachable_induction; [done|].
    intros s l s' _ HI Hs. by eapply no_cssend_step.
  Qed.

  Theorem no_blocking_in_cs cap cf d s :
    cf_send_in_cs cf = false → reachable cap cf d s →
    (∀ ms a r, rd s ≠ RCsSend ms a r) ∧ (reader_step cap cf s = None → mu s ≠ Some reader_tid).
  Proof.
    intros Hcf Hr. pose proof (no_cssend_reachable _ _ _ _ Hcf Hr) as Hn.
    pose proof (cinv_reachable _ _ _ _ Hr) as HI. split.
    - intros ms a r Hrd. rewrite Hrd in Hn. done.
    - intros Hnone Hmu. apply (ci_reader_mu _ _ HI) in Hmu.
      unfold Conc.reader_step in Hnone. destruct (rd s); try done.
      destruct (hnd (data s) it). by rewrite Hcf in Hnone.
  Qed.

  (* a caller or closer inside its critical section can always take its next step *)
  Theorem cs_thread_not_blocked cap cf (s : cstate) t p :
    t ≠ reader_tid → thr s !! t = Some p → thread_in_cs p = true → is_Some (cstep cap cf s (LThr t)).
  Proof.
    intros Ht Hp Hc. simpl. destruct (decide (t = reader_tid)); [done|].
    unfold Conc.thread_step. rewrite Hp. destruct p; try done.
    - destruct (api (data s) c); eauto.
    - destruct (done_closed s); eauto.
  Qed.

  (* … and so can the reader inside handleEvent's critical section: computing [hnd] never blocks *)
  Theorem cs_reader_not_blocked cap cf (s : cstate) it rest :
    rd s = RInCs it rest → is_Some (cstep cap cf s (LThr reader_tid)).
  Proof.
    intros Hrd. unfold Conc.cstep. rewrite decide_True by done. unfold Conc.reader_step. rewrite Hrd.
    destruct (hnd (data s) it). destruct (cf_send_in_cs cf); eauto.
  Qed.

  (* ---------- 5. order and completeness of delivery, for every capacity ---------- *)
  Lemma evs_of_app (a b : list msg) : evs_of (a ++ b) = evs_of a ++ evs_of b.
  Proof. apply omap_app. Qed.
  Lemma ers_of_app (a b : list msg) : ers_of (a ++ b) = ers_of a ++ ers_of b.
  Proof. apply omap_app. Qed.
  Lemma evs_of_nil : evs_of ([] : list msg) = [].
  Proof. done. Qed.
  Lemma ers_of_nil : ers_of ([] : list msg) = [].
  Proof. done. Qed.
  Lemma evs_of_cons_ev e (ms : list msg) : evs_of (MEv e :: ms) = e :: evs_of ms.
  Proof. done. Qed.
  Lemma evs_of_cons_er x (ms : list msg) : evs_of (MEr x :: ms) = evs_of ms.
  Proof. done. Qed.
  Lemma ers_of_cons_ev e (ms : list msg) : ers_of (MEv e :: ms) = ers_of ms.
  Proof. done. Qed.
  Lemma ers_of_cons_er x (ms : list msg) : ers_of (MEr x :: ms) = x :: ers_of ms.
  Proof. done. Qed.
  #[local] Opaque evs_of ers_of.
  Lemma evs_of_err_msgs (l : list msg) : evs_of (err_msgs l) = [].
  Proof. induction l as [|[e|x] l IH]; simpl; rewrite ?evs_of_cons_ev, ?evs_of_cons_er; auto. Qed.
  Lemma evs_of_ev_msgs (l : list msg) : evs_of (ev_msgs l) = evs_of l.
  Proof. induction l as [|[e|x] l IH]; simpl; rewrite ?evs_of_cons_ev, ?evs_of_cons_er; auto. by f_equal. Qed.
  Lemma ers_of_err_msgs (l : list msg) : ers_of (err_msgs l) = ers_of l.
  Proof. induction l as [|[e|x] l IH]; simpl; rewrite ?ers_of_cons_ev, ?ers_of_cons_er; auto. by f_equal. Qed.
  Lemma ers_of_ev_msgs (l : list msg) : ers_of (ev_msgs l) = [].
  Proof. induction l as [|[e|x] l IH]; simpl; rewrite ?ers_of_cons_ev, ?ers_of_cons_er; auto. Qed.
  Lemma evs_of_split (l : list msg) : evs_of (err_msgs l ++ ev_msgs l) = evs_of l.
  Proof. by rewrite evs_of_app, evs_of_err_msgs, evs_of_ev_msgs. Qed.
  Lemma ers_of_split (l : list msg) : ers_of (err_msgs l ++ ev_msgs l) = ers_of l.
  Proof. by rewrite ers_of_app, ers_of_err_msgs, ers_of_ev_msgs, app_nil_r. Qed.

  Lemma delivered_app (l1 l2 : list label) : delivered (l1 ++ l2) = delivered l1 ++ delivered l2.
  Proof.
    induction l1 as [|l l1 IH]; [done|]. destruct l; simpl; try done. by rewrite IH, app_assoc.
  Qed.

  Lemma handled_items_app (l1 l2 : list linent) : handled_items (l1 ++ l2) = handled_items l1 ++ handled_items l2.
  Proof. induction l1 as [|[c r|i p|k] l1 IH]; simpl; by rewrite ?IH. Qed.
  Lemma lin_msgs_app (l1 l2 : list linent) : lin_msgs (l1 ++ l2) = lin_msgs l1 ++ lin_msgs l2.
  Proof. induction l1 as [|[c r|i p|k] l1 IH]; simpl; rewrite ?IH, <- ?app_assoc; done. Qed.

  (* the mutex-held sends of handleEvent are error sends only *)
  Definition CsErrOnly (s : cstate) : Prop := match rd s with RCsSend ms _ _ => evs_of ms = [] | _ => True end.

  Lemma cs_err_only_step cap cf s l s' : CsErrOnly s → cstep cap cf s l = Some s' → CsErrOnly s'.
  Proof.
    unfold CsErrOnly. intros Hc Hs. step_cases Hs; simpl in *; try done.
    all: rewrite ?evs_of_err_msgs, ?evs_of_cons_er, ?evs_of_cons_ev in *; try done.
  Qed.

  Lemma cs_err_only_reachable cap cf d s : reachable cap cf d s → CsErrOnly s.
  Proof.
    revert s. apply reachable_induction; [done|].
    intros s l s' _ HI Hs. by eapply cs_err_only_step.
  Qed.

  (* The stream invariant.  [u]: the items begun but not handled (at most one: the reader's current item, or — once the
     reader is exiting — the item it abandoned while sending its [pre]); [dE], [dX]: what an exiting reader dropped. *)
  Definition StreamInv (s : cstate) : Prop :=
    ∃ (u : list I) (dE : list E) (dX : list X),
      started s = handled_items (lin s) ++ u ∧ length u ≤ 1 ∧
      (reader_exiting (rd s) = false → u = cur_items (rd s) ∧ dE = [] ∧ dX = []) ∧
      evs_of (lin_msgs (lin s) ++ concat (map pre u))
        = recvd_ev s ++ ev_buf s ++ evs_of (pending_msgs (rd s)) ++ dE ∧
      ers_of (lin_msgs (lin s) ++ concat (map pre u))
        = recvd_er s ++ ers_of (pending_msgs (rd s)) ++ dX.

  Lemma stream_inv_step cap cf s l s' : CsErrOnly s → StreamInv s → cstep cap cf s l = Some s' → StreamInv s'.
  Proof.
    unfold CsErrOnly, StreamInv. intros Hc (u & dE & dX & Hst & Hlen & Hne & Hev & Her) Hs.
    exists (if reader_exiting (rd s') then u else cur_items (rd s')),
           (if reader_exiting (rd s') then evs_of (pending_msgs (rd s)) ++ dE else []),
           (if reader_exiting (rd s') then ers_of (pending_msgs (rd s)) ++ dX else []).
    step_cases Hs; simpl in *.
    all: try match goal with r0 : Conc.rpc |- _ => destruct r0; simpl in * end.
    all: try (rewrite evs_of_cons_ev in Hc; discriminate Hc).
    all: try (destruct (Hne eq_refl) as (-> & -> & ->)); clear Hne.
    all: subst st.
    all: rewrite ?handled_items_app, ?lin_msgs_app in *; simpl in *.
    all: rewrite ?evs_of_app, ?ers_of_app, ?evs_of_cons_ev, ?evs_of_cons_er, ?ers_of_cons_ev, ?ers_of_cons_er,
                 ?evs_of_err_msgs, ?evs_of_ev_msgs, ?ers_of_err_msgs, ?ers_of_ev_msgs, ?evs_of_nil, ?ers_of_nil in *.
    all: rewrite ?app_nil_r in *.
    all: split_and!; try done; try (simpl; lia).
    all: rewrite <- ?app_assoc; simpl; try done.
    all: try (rewrite Hev; rewrite <- ?app_assoc; simpl; done).
    all: try (rewrite Her; rewrite <- ?app_assoc; simpl; done).
    all: try (rewrite app_assoc, Hev; rewrite <- ?app_assoc; simpl; done).
    all: try (rewrite app_assoc, Her; rewrite <- ?app_assoc; simpl; done).
    all: rewrite evs_of_app in Hev; rewrite ers_of_app in Her; done.
  Qed.

  (* every item the kernel handed over has been begun, or is still in the reader's current batch, or — only once the
     reader is exiting — was dropped *)
  Definition ItemsInv (del : list I) (s : cstate) : Prop :=
    ∃ dropped, del = started s ++ unstarted (rd s) ++ dropped ∧ (reader_exiting (rd s) = false → dropped = []).

  Lemma items_inv_step cap cf del s l s' :
    ItemsInv del s → cstep cap cf s l = Some s' → ItemsInv (del ++ delivered [l]) s'.
  Proof.
    unfold ItemsInv. intros (dr & Heq & Hdr) Hs.
    exists (if reader_exiting (rd s') then unstarted (rd s) ++ dr else []). subst del.
    step_cases Hs; simpl in *.
    all: try match goal with r0 : Conc.rpc |- _ => destruct r0; simpl in * end.
    all: try (rewrite (Hdr eq_refl)); clear Hdr.
    all: rewrite ?app_nil_r, <- ?app_assoc; simpl; done.
  Qed.

  Lemma stream_run cap cf d ls s :
    crun cap cf (cinit d) ls = Some s → CsErrOnly s ∧ StreamInv s ∧ ItemsInv (delivered ls) s.
  Proof.
    revert s. induction ls as [|l ls IH] using rev_ind; intros s Hr.
    - simpl in Hr. simplify_eq. split; [done|]. split.
      + exists [], [], []. simpl. rewrite ?evs_of_nil, ?ers_of_nil. split_and!; try done. lia.
      + by exists [].
    - rewrite crun_snoc in Hr. destruct (crun cap cf (cinit d) ls) as [s0|] eqn:Hr0; [|done].
      simpl in Hr. destruct (IH s0 eq_refl) as (Hc & Hst & Hit). rewrite delivered_app.
      split; [by eapply cs_err_only_step|]. split; [by eapply stream_inv_step | by eapply items_inv_step].
  Qed.

  Lemma stream_of_shape (s : cstate) u :
    started s = handled_items (lin s) ++ u → stream s = lin_msgs (lin s) ++ concat (map pre u).
  Proof. intros Hst. unfold ConcDefs.stream. by rewrite Hst, drop_app. Qed.

  (* The reader begins items one at a time and handles them in the order it began them: the begun items are the handled
     ones (in linearisation order) followed by at most one more — the reader's current item.  Hence the stream is the
     messages of the handled items ([pre i] then the [post] computed in i's critical section), then [pre] of the
     current item: all of it determined by [pre], [hnd] and the linearisation; nothing else is ever sent. *)
  Theorem started_shape cap cf d ls s :
    crun cap cf (cinit d) ls = Some s →
    ∃ u, started s = handled_items (lin s) ++ u ∧ length u ≤ 1 ∧
         (reader_exiting (rd s) = false → u = cur_items (rd s)) ∧
         stream s = lin_msgs (lin s) ++ concat (map pre u).
  Proof.
    intros Hr. destruct (stream_run _ _ _ _ _ Hr) as (_ & (u & dE & dX & Hst & Hlen & Hne & _) & _).
    exists u. split_and!; [done|done| |by apply stream_of_shape]. intros Hex. by destruct (Hne Hex).
  Qed.

  Theorem items_fifo cap cf d ls s :
    crun cap cf (cinit d) ls = Some s →
    ∃ dropped, delivered ls = started s ++ unstarted (rd s) ++ dropped ∧ (reader_exiting (rd s) = false → dropped = []).
  Proof. intros Hr. by destruct (stream_run _ _ _ _ _ Hr) as (_ & _ & ?). Qed.

  (* The statement does not mention cap except as the parameter of crun: what the consumer has received on Events, then
     what sits in the buffer, then what the reader is still to send of the messages already determined, is EXACTLY the
     events of the stream, for every capacity, every schedule and every consumer pace; nothing is lost, duplicated,
     reordered or invented until the reader starts exiting, and then only a suffix is dropped. *)
  Theorem events_fifo cap cf d ls s :
    crun cap cf (cinit d) ls = Some s →
    (∃ dropped, evs_of (stream s) = recvd_ev s ++ ev_buf s ++ evs_of (pending_msgs (rd s)) ++ dropped
                ∧ (reader_exiting (rd s) = false → dropped = [])) ∧
    (reader_exiting (rd s) = false →
     recvd_ev s ++ ev_buf s ++ evs_of (pending_msgs (rd s)) = evs_of (stream s)) ∧
    (recvd_ev s ++ ev_buf s) `prefix_of` evs_of (stream s).
  Proof.
    intros Hr. destruct (stream_run _ _ _ _ _ Hr) as (_ & (u & dE & dX & Hst & Hlen & Hne & Heq & _) & _).
    rewrite (stream_of_shape _ _ Hst). split; [exists dE; split; [done|]; intros Hex; by destruct (Hne Hex) as (_ & ? & _)|].
    split.
    - intros Hex. destruct (Hne Hex) as (_ & -> & _). by rewrite Heq, app_nil_r.
    - rewrite Heq. exists (evs_of (pending_msgs (rd s)) ++ dE). by rewrite <- app_assoc.
  Qed.

  Theorem errors_fifo cap cf d ls s :
    crun cap cf (cinit d) ls = Some s →
    (∃ dropped, ers_of (stream s) = recvd_er s ++ ers_of (pending_msgs (rd s)) ++ dropped
                ∧ (reader_exiting (rd s) = false → dropped = [])) ∧
    (reader_exiting (rd s) = false → recvd_er s ++ ers_of (pending_msgs (rd s)) = ers_of (stream s)) ∧
    recvd_er s `prefix_of` ers_of (stream s).
  Proof.
    intros Hr. destruct (stream_run _ _ _ _ _ Hr) as (_ & (u & dE & dX & Hst & Hlen & Hne & _ & Heq) & _).
    rewrite (stream_of_shape _ _ Hst). split; [exists dX; split; [done|]; intros Hex; by destruct (Hne Hex) as (_ & _ & ?)|].
    split.
    - intros Hex. destruct (Hne Hex) as (_ & _ & ->). by rewrite Heq, app_nil_r.
    - rewrite Heq. by eexists.
  Qed.

  (* the stream only grows at its end: what the reader is committed to send is never revised *)
  Lemma stream_mono_step cap cf s l s' : StreamInv s → cstep cap cf s l = Some s' → stream s `prefix_of` stream s'.
  Proof.
    intros (u & dE & dX & Hst & Hlen & Hne & _ & _) Hs. unfold ConcDefs.stream.
    step_cases Hs; simpl in *.
    all: try (destruct (Hne eq_refl) as (-> & _ & _)); clear Hne.
    all: subst st.
    all: rewrite ?handled_items_app, ?lin_msgs_app; simpl.
    all: rewrite ?app_nil_r; try done.
    all: rewrite ?app_length; simpl; rewrite ?drop_app, ?drop_all, <- ?app_assoc, ?(drop_app_ge _ _ (_ + 1)) by lia; simpl.
    all: rewrite ?app_nil_r.
    all: try (by apply prefix_app, prefix_app_r).
    all: try (by eexists).
  Qed.

  Theorem stream_mono cap cf d ls1 ls2 s1 s2 :
    crun cap cf (cinit d) ls1 = Some s1 → crun cap cf s1 ls2 = Some s2 → stream s1 `prefix_of` stream s2.
  Proof.
    intros H1. revert ls1 s1 H1. induction ls2 as [|l ls2 IH]; intros ls1 s1 H1 H2; simpl in H2; [by simplify_eq|].
    destruct (cstep cap cf s1 l) as [s|] eqn:Hs; [|done].
    etrans; [eapply stream_mono_step; [|exact Hs]; by destruct (stream_run _ _ _ _ _ H1) as (_ & ? & _)|].
    apply (IH (ls1 ++ [l])); [|done]. by rewrite crun_snoc, H1.
  Qed.

  (* independence from the buffer size: two runs with different capacities (and schedules, consumers, code facts) whose
     streams are comparable (in particular: equal) have received comparable sequences: one is a prefix of the other *)
  Corollary capacity_independent cap1 cap2 cf1 cf2 d1 d2 ls1 ls2 s1 s2 :
    crun cap1 cf1 (cinit d1) ls1 = Some s1 → crun cap2 cf2 (cinit d2) ls2 = Some s2 →
    stream s1 `prefix_of` stream s2 ∨ stream s2 `prefix_of` stream s1 →
    (recvd_ev s1 `prefix_of` recvd_ev s2 ∨ recvd_ev s2 `prefix_of` recvd_ev s1) ∧
    (recvd_er s1 `prefix_of` recvd_er s2 ∨ recvd_er s2 `prefix_of` recvd_er s1).
  Proof.
    intros H1 H2 Hd.
    destruct (events_fifo _ _ _ _ _ H1) as (_ & _ & Hp1). destruct (events_fifo _ _ _ _ _ H2) as (_ & _ & Hp2).
    destruct (errors_fifo _ _ _ _ _ H1) as (_ & _ & Hq1). destruct (errors_fifo _ _ _ _ _ H2) as (_ & _ & Hq2).
    assert (recvd_ev s1 `prefix_of` evs_of (stream s1)) as Hr1 by (etrans; [|exact Hp1]; by eexists).
    assert (recvd_ev s2 `prefix_of` evs_of (stream s2)) as Hr2 by (etrans; [|exact Hp2]; by eexists).
    clear Hp1 Hp2. destruct Hd as [[k Hk]|[k Hk]].
    - rewrite Hk in Hr2, Hq2. rewrite evs_of_app in Hr2. rewrite ers_of_app in Hq2. split.
      + apply (prefix_weak_total _ _ (evs_of (stream s1) ++ evs_of k)); [by apply prefix_app_r | done].
      + apply (prefix_weak_total _ _ (ers_of (stream s1) ++ ers_of k)); [by apply prefix_app_r | done].
    - rewrite Hk in Hr1, Hq1. rewrite evs_of_app in Hr1. rewrite ers_of_app in Hq1. split.
      + apply (prefix_weak_total _ _ (evs_of (stream s2) ++ evs_of k)); [done | by apply prefix_app_r].
      + apply (prefix_weak_total _ _ (ers_of (stream s2) ++ ers_of k)); [done | by apply prefix_app_r].
  Qed.

  (* ---------- 6. linearizability ---------- *)
  Lemma seq_run_app d (l1 l2 : list linent) :
    seq_run d (l1 ++ l2) = seq_run d l1 ≫= λ d1, seq_run d1 l2.
  Proof.
    revert d. induction l1 as [|[c r|i p|k] l1 IH]; intros d; simpl; [done|apply IH|apply IH|].
    destruct (env d k); [apply IH|done].
  Qed.

  Lemma seq_results_ok_snoc d l e d1 :
    seq_run d l = Some d1 → seq_results_ok d l → entry_ok d1 e → seq_results_ok d (l ++ [e]).
  Proof.
    intros Hrun Hok Hr l1 e0 l2 Heq. destruct l2 as [|x l2 _] using rev_ind.
    - apply app_inj_tail in Heq as [-> Hx]. simplify_eq. eauto.
    - rewrite app_comm_cons, app_assoc in Heq. apply app_inj_tail in Heq as [Heq _]. eapply Hok; eauto.
  Qed.

  Definition LinInv (d : D) (s : cstate) : Prop := seq_run d (lin s) = Some (data s) ∧ seq_results_ok d (lin s).

  Lemma lin_inv_step cap cf d s l s' : LinInv d s → cstep cap cf s l = Some s' → LinInv d s'.
  Proof.
    unfold LinInv. intros [Hrun Hok] Hs. step_cases Hs; simpl in *; try done.
    all: split; [rewrite seq_run_app, Hrun; simpl | eapply seq_results_ok_snoc; [done..|]; simpl].
    all: repeat match goal with H : api _ _ = _ |- _ => rewrite H | H : hnd _ _ = _ |- _ => rewrite H
                           | H : env _ _ = _ |- _ => rewrite H end; simpl; eauto.
  Qed.

  (* Replaying the linearisation — API calls, the reader's critical sections and environment steps, one after another —
     on the sequential semantics from the initial data yields the current data; every recorded API result is what [api]
     returns at that point of the replay, every recorded [post] what [hnd] returns there, every environment step is
     allowed there. *)
  Theorem linearizable cap cf d ls s :
    crun cap cf (cinit d) ls = Some s → seq_run d (lin s) = Some (data s) ∧ seq_results_ok d (lin s).
  Proof.
    intros Hr. assert (reachable cap cf d s) as Hre by (by exists ls). clear Hr. revert s Hre.
    apply (reachable_induction cap cf d (LinInv d)).
    - split; [done|]. intros l1 e l2 Heq. by destruct l1.
    - intros s l s' _ HI Hs. by eapply lin_inv_step.
  Qed.

  (* real-time order: a call enters lin exactly at its critical-section step, i.e. after its spawn and before its
     return, with the result it returns and computed from the data of that moment; lin only grows at the end *)
  Theorem lin_point cap cf (s : cstate) t c s' :
    t ≠ reader_tid → thr s !! t = Some (CInCs c) → cstep cap cf s (LThr t) = Some s' →
    ∃ r, thr s' !! t = Some (CDone r) ∧ lin s' = lin s ++ [LinCall c r] ∧ api (data s) c = (data s', r) ∧ mu s' = None.
  Proof.
    intros Ht Hp Hs. simpl in Hs. destruct (decide (t = reader_tid)); [done|].
    unfold Conc.thread_step in Hs. rewrite Hp in Hs. destruct (api (data s) c) as [d' r] eqn:Ha.
    simplify_eq. exists r. simpl. by rewrite lookup_insert.
  Qed.

  (* the same for the reader: an item enters lin at the step of its critical section, with the data of that moment *)
  Theorem lin_point_reader cap cf (s : cstate) it rest s' :
    rd s = RInCs it rest → cstep cap cf s (LThr reader_tid) = Some s' →
    ∃ post, lin s' = lin s ++ [LinHandle it post] ∧ hnd (data s) it = (data s', post) ∧
            (rd s' = RPost post rest ∧ mu s' = None ∨
             rd s' = RCsSend (err_msgs post) (ev_msgs post) rest ∧ mu s' = mu s ∧ cf_send_in_cs cf = true).
  Proof.
    intros Hrd Hs. unfold Conc.cstep in Hs. rewrite decide_True in Hs by done.
    unfold Conc.reader_step in Hs. rewrite Hrd in Hs. destruct (hnd (data s) it) as [d' post] eqn:Hh.
    exists post. destruct (cf_send_in_cs cf); simplify_eq; simpl; (split; [done|]); (split; [done|]); [right|left]; done.
  Qed.

  Theorem lin_point_env cap cf (s : cstate) k s' :
    cstep cap cf s (LEnv k) = Some s' →
    lin s' = lin s ++ [LinEnv k] ∧ env (data s) k = Some (data s') ∧ mu s' = mu s ∧ rd s' = rd s ∧ thr s' = thr s.
  Proof. intros Hs. simpl in Hs. destruct (env (data s) k); by simplify_eq. Qed.

  Theorem lin_mono cap cf s l s' : cstep cap cf s l = Some s' → lin s `prefix_of` lin s'.
  Proof. intros Hs. step_cases Hs; simpl; try done. all: by eexists. Qed.

  Lemma lin_mono_run cap cf s ls s' : crun cap cf s ls = Some s' → lin s `prefix_of` lin s'.
  Proof.
    revert s. induction ls as [|l ls IH]; intros s Hr; simpl in Hr; [by simplify_eq|].
    destruct (cstep cap cf s l) as [s1|] eqn:Hs; [|done]. etrans; [by eapply lin_mono|by apply IH].
  Qed.

  Corollary lin_call_stays cap cf (s : cstate) t c s1 ls s2 :
    t ≠ reader_tid → thr s !! t = Some (CInCs c) → cstep cap cf s (LThr t) = Some s1 → crun cap cf s1 ls = Some s2 →
    ∃ r, thr s1 !! t = Some (CDone r) ∧ LinCall c r ∈ lin s2.
  Proof.
    intros Ht Hp Hs Hr. destruct (lin_point _ _ _ _ _ _ Ht Hp Hs) as (r & Hd & Hl & _). exists r. split; [done|].
    destruct (lin_mono_run _ _ _ _ _ Hr) as [k ->]. rewrite Hl. set_solver.
  Qed.

  (* lin grows — and the data changes — only in a critical-section step (of a caller, or of the reader) or in an
     environment step *)
  Theorem lin_only_in_cs cap cf s l s' :
    cstep cap cf s l = Some s' → lin s' ≠ lin s →
    (∃ t c, l = LThr t ∧ t ≠ reader_tid ∧ thr s !! t = Some (CInCs c)) ∨
    (∃ it rest, l = LThr reader_tid ∧ rd s = RInCs it rest) ∨
    (∃ k, l = LEnv k).
  Proof. intros Hs Hne. step_cases Hs; simpl in *; try done; eauto 10. Qed.

  Theorem data_only_in_cs cap cf s l s' :
    cstep cap cf s l = Some s' → data s' ≠ data s →
    (∃ t c, l = LThr t ∧ t ≠ reader_tid ∧ thr s !! t = Some (CInCs c)) ∨
    (∃ it rest, l = LThr reader_tid ∧ rd s = RInCs it rest) ∨
    (∃ k, l = LEnv k).
  Proof. intros Hs Hne. step_cases Hs; simpl in *; try done; eauto 10. Qed.

  (* classification of steps by what they do to the shared data, the linearisation and the items the reader holds *)
  Theorem step_classify cap cf s l s' :
    cstep cap cf s l = Some s' →
    (data s' = data s ∧ lin s' = lin s ∧
     (held (rd s') = held (rd s) ∨ held (rd s') = [] ∨ ∃ b, l = LKernel b ∧ rd s = RRead ∧ rd s' = RBatch b)) ∨
    (∃ t c r, l = LThr t ∧ t ≠ reader_tid ∧ thr s !! t = Some (CInCs c) ∧ api (data s) c = (data s', r) ∧
              lin s' = lin s ++ [LinCall c r] ∧ rd s' = rd s) ∨
    (∃ it rest post, l = LThr reader_tid ∧ rd s = RInCs it rest ∧ hnd (data s) it = (data s', post) ∧
                     lin s' = lin s ++ [LinHandle it post] ∧ held (rd s') = rest) ∨
    (∃ k, l = LEnv k ∧ env (data s) k = Some (data s') ∧ lin s' = lin s ++ [LinEnv k] ∧ rd s' = rd s).
  Proof.
    intros Hs. step_cases Hs; simpl in *.
    all: try (left; split; [done|]; split; [done|]; unfold held; simpl; eauto; fail).
    all: try (right; left; eexists _, _, _; split_and!; done).
    all: try (right; right; left; eexists _, _, _; split_and!; done).
    all: try (right; right; right; eexists; split_and!; done).
    left. split; [done|]. split; [done|]. right. right. by eexists.
  Qed.

  (* ---------- 7. inert after Close ---------- *)
  Theorem inert_after_close cap cf (s : cstate) t c :
    cf_guard_first cf = true → done_closed s = true → thr s !! t = Some (CStart c) → t ≠ reader_tid →
    ∃ s', cstep cap cf s (LThr t) = Some s' ∧ thr s' !! t = Some (CDone (closed_result c)) ∧ data s' = data s
          ∧ mu s' = mu s ∧ lin s' = lin s.
  Proof.
    intros Hg Hd Hp Ht. simpl. destruct (decide (t = reader_tid)); [done|].
    unfold Conc.thread_step. rewrite Hp, Hg, Hd. simpl. eexists; split; [done|]. simpl. by rewrite lookup_insert.
  Qed.

  Theorem done_stays_closed cap cf s l s' :
    cstep cap cf s l = Some s' →
    (done_closed s = true → done_closed s' = true) ∧ (file_closed s = true → file_closed s' = true) ∧
    (resp_closed s = true → resp_closed s' = true) ∧ (ev_closed s = true → ev_closed s' = true) ∧
    (er_closed s = true → er_closed s' = true).
  Proof. intros Hs. step_cases Hs; simpl; tauto. Qed.

  Corollary done_stays_closed_run cap cf s ls s' :
    crun cap cf s ls = Some s' → done_closed s = true → done_closed s' = true.
  Proof.
    revert s. induction ls as [|l ls IH]; intros s Hr Hd; simpl in Hr; [by simplify_eq|].
    destruct (cstep cap cf s l) as [s1|] eqn:Hs; [|done]. apply (IH _ Hr). by apply (done_stays_closed _ _ _ _ _ Hs).
  Qed.

  (* ---------- 8. closers ---------- *)
  Theorem close_effects cap cf d s t :
    reachable cap cf d s →
    (thr s !! t = Some KDone → done_closed s = true) ∧
    (thr s !! t = Some KWaitResp → file_closed s = true ∧ done_closed s = true).
  Proof.
    intros Hr. pose proof (cinv_reachable _ _ _ _ Hr) as HI. split.
    - intros Hp. eapply (ci_closer_done _ _ HI); eauto.
    - intros Hp. split; [by eapply (ci_waitresp_file _ _ HI)|]. eapply (ci_closer_done _ _ HI); eauto.
  Qed.

  (* `done` is closed at most once: from a state where it is closed, the critical section of Close goes straight to
     its return and touches no channel ... *)
  Theorem done_closed_once cap cf (s : cstate) t s' :
    t ≠ reader_tid → thr s !! t = Some KInCs → done_closed s = true → cstep cap cf s (LThr t) = Some s' →
    thr s' !! t = Some KDone ∧ done_closed s' = true ∧ file_closed s' = file_closed s ∧ resp_closed s' = resp_closed s
    ∧ ev_closed s' = ev_closed s ∧ er_closed s' = er_closed s ∧ ev_buf s' = ev_buf s ∧ panicked s' = panicked s.
  Proof.
    intros Ht Hp Hd Hs. simpl in Hs. destruct (decide (t = reader_tid)); [done|].
    unfold Conc.thread_step in Hs. rewrite Hp, Hd in Hs. simplify_eq. simpl. by rewrite lookup_insert.
  Qed.

  (* ... and the only step that closes it is that critical section, taken from a state where it is still open *)
  Theorem done_closed_by cap cf s l s' :
    cstep cap cf s l = Some s' → done_closed s = false → done_closed s' = true →
    ∃ t, l = LThr t ∧ t ≠ reader_tid ∧ thr s !! t = Some KInCs ∧ thr s' !! t = Some KCloseFile.
  Proof.
    intros Hs H0 H1. step_cases Hs; simpl in *; try congruence.
    eexists; split; [done|]. split; [done|]. split; [done|]. by rewrite lookup_insert.
  Qed.
End Safety.

(* ---------- 9. non-vacuity: concrete runs ---------- *)
Section Examples.
  (* data: a counter.  An API call c adds c and returns the old value.  An item is a number i: odd items are preceded by
     the error i (sent before the lock); handling i adds 100 to the counter and sends the event (counter + i) — so the
     event depends on the data at the moment of the critical section.  Environment step k adds k; 0 is not allowed. *)
  Definition ex_api (d c : nat) : nat * nat := (d + c, d).
  Definition ex_closed (c : nat) : nat := 0.
  Definition ex_pre (i : nat) : list (@msg nat nat) := if Nat.odd i then [MEr i] else [].
  Definition ex_hnd (d i : nat) : nat * list (@msg nat nat) := (d + 100, [MEv (d + i)]).
  Definition ex_env (d k : nat) : option nat := if decide (k = 0) then None else Some (d + k).
  Definition ex_cf : cfacts := mkCf false true.
  Notation ex_crun := (crun ex_api ex_closed ex_pre ex_hnd ex_env).

  (* capacity 1: a caller, a batch of two notifications, the reader, the consumer, Close, a call after Close, a second Close *)
  Definition ex_labels : list (@label nat nat nat nat) :=
    [ LSpawn 1 (CStart 5); LThr 1; LThr 1; LThr 1;                  (* Add: isClosed?, Lock, critical section *)
      LThr 0; LKernel [10; 7];                                      (* the reader blocks in Read; the kernel delivers *)
      LThr 0; LThr 0; LThr 0; LThr 0; LThr 0; LThr 0;               (* item 10: lock, critical section (event 5+10), buffer *)
      LThr 0; LConsumeEr; LThr 0; LThr 0; LThr 0;                   (* item 7: error 7 by rendezvous, lock, critical section *)
      LConsumeEv; LThr 0; LThr 0; LThr 0; LConsumeEv;               (* buffer full until the consumer takes 15; then 112 *)
      LSpawn 2 KStart; LThr 2; LThr 2; LThr 2;                      (* Close: lock, close(done), close the file *)
      LThr 0; LThr 0; LThr 2; LThr 0; LThr 0;                       (* the reader exits; Close returns *)
      LSpawn 3 (CStart 9); LThr 3;                                  (* a call after Close returns closed_result at once *)
      LSpawn 4 KStart; LThr 4; LThr 4 ].                            (* a second Close closes nothing *)

  Example ex_run :
    match ex_crun 1 ex_cf (cinit 0) ex_labels with
    | Some s => recvd_ev s = [15; 112] ∧ recvd_er s = [7] ∧ ev_buf s = []
                ∧ lin s = [LinCall 5 0; LinHandle 10 [MEv 15]; LinHandle 7 [MEv 112]] ∧ data s = 205
                ∧ started s = [10; 7]
                ∧ thr s !! 1 = Some (CDone 0) ∧ thr s !! 2 = Some KDone ∧ thr s !! 3 = Some (CDone 0)
                ∧ thr s !! 4 = Some KDone ∧ rd s = RDead ∧ mu s = None ∧ panicked s = false
                ∧ done_closed s = true ∧ ev_closed s = true ∧ er_closed s = true
    | None => False
    end.
  Proof. vm_compute. repeat split. Qed.

  (* with capacity 1 the reader is blocked while the buffer is full (label 18 replaced by a reader step) *)
  Example ex_blocked : ex_crun 1 ex_cf (cinit 0) (take 17 ex_labels ++ [LThr 0]) = None.
  Proof. vm_compute. reflexivity. Qed.

  (* what is sent depends on the data at the moment of the reader's critical section: the same notification, with an
     Add (thread 1) and an environment step racing it.  Schedule A: both before the reader's critical section;
     schedule B: both after.  The events differ (16 vs 10) and lin records the order. *)
  Example ex_race_A :
    match ex_crun 0 ex_cf (cinit 0)
            [ LThr 0; LKernel [10]; LThr 0; LThr 0;                   (* the reader is about to lock *)
              LSpawn 1 (CStart 5); LThr 1; LThr 1; LThr 1; LEnv 1;    (* Add 5 and env +1 get in first *)
              LThr 0; LThr 0; LConsumeEv ] with
    | Some s => recvd_ev s = [16] ∧ lin s = [LinCall 5 0; LinEnv 1; LinHandle 10 [MEv 16]] ∧ data s = 106
    | None => False
    end.
  Proof. vm_compute. repeat split. Qed.
  Example ex_race_B :
    match ex_crun 0 ex_cf (cinit 0)
            [ LThr 0; LKernel [10]; LThr 0; LThr 0;
              LSpawn 1 (CStart 5); LThr 1;                            (* Add 5 is started … *)
              LThr 0; LThr 0;                                         (* … but the reader's critical section runs first *)
              LThr 1; LThr 1; LEnv 1; LConsumeEv ] with
    | Some s => recvd_ev s = [10] ∧ lin s = [LinHandle 10 [MEv 10]; LinCall 5 100; LinEnv 1] ∧ data s = 106
    | None => False
    end.
  Proof. vm_compute. repeat split. Qed.
  (* a caller cannot enter while the reader is inside its critical section; a disallowed environment step is no step *)
  Example ex_race_excluded :
    ex_crun 0 ex_cf (cinit 0) [ LThr 0; LKernel [10]; LThr 0; LThr 0; LThr 0; LSpawn 1 (CStart 5); LThr 1; LThr 1 ] = None
    ∧ ex_crun 0 ex_cf (cinit 0) [ LEnv 0 ] = None.
  Proof. vm_compute. done. Qed.

  (* capacity 0: every event is handed over by rendezvous; the consumer receives the same sequence *)
  Definition ex_labels0 : list (@label nat nat nat nat) :=
    [ LThr 0; LKernel [10; 7];
      LThr 0; LThr 0; LThr 0; LThr 0; LConsumeEv; LThr 0;
      LThr 0; LConsumeEr; LThr 0; LThr 0; LThr 0; LConsumeEv; LThr 0; LThr 0;
      LSpawn 2 KStart; LThr 2; LThr 2; LThr 2; LThr 0; LThr 0; LThr 2 ].

  Example ex_run_unbuffered :
    match ex_crun 0 ex_cf (cinit 0) ex_labels0 with
    | Some s => recvd_ev s = [10; 107] ∧ recvd_er s = [7] ∧ thr s !! 2 = Some KDone ∧ panicked s = false
    | None => False
    end.
  Proof. vm_compute. repeat split. Qed.

  (* the variant of the code that sends the error while holding mu (cf_send_in_cs = true): same received sequences *)
  Example ex_run_send_in_cs :
    match crun ex_api ex_closed (λ _ : nat, []) (λ d i, (d, [MEv 10; MEr 8])) ex_env 1 (mkCf true true) (cinit 0)
               [ LThr 0; LKernel [3]; LThr 0; LThr 0; LThr 0; LThr 0; LConsumeEr; LThr 0; LThr 0; LConsumeEv ] with
    | Some s => recvd_ev s = [10] ∧ recvd_er s = [8] ∧ mu s = None
    | None => False
    end.
  Proof. vm_compute. repeat split. Qed.
End Examples.

Print Assumptions cinv_reachable.
Print Assumptions no_panic.
Print Assumptions mutual_exclusion.
Print Assumptions no_blocking_in_cs.
Print Assumptions started_shape.
Print Assumptions items_fifo.
Print Assumptions events_fifo.
Print Assumptions errors_fifo.
Print Assumptions stream_mono.
Print Assumptions capacity_independent.
Print Assumptions linearizable.
Print Assumptions lin_only_in_cs.
Print Assumptions data_only_in_cs.
Print Assumptions step_classify.
Print Assumptions done_closed_by.
