(* ConcSafety.v — safety theorems about the goroutine-level model of Conc.v, for every capacity of Events, every
   pair of code facts, every schedule (label sequence), every number of callers and closers, every consumer pace. *)
From stdpp Require Import gmap list.
From Fsn Require Import Conc ConcDefs.
Local Open Scope nat_scope.

Section Safety.
  Context {E X D C R : Type}.
  Variable api : D → C → D * R.
  Variable closed_result : C → R.
  Notation cstate := (@cstate E X D C R).
  Notation rpc := (@rpc E X).
  Notation cpc := (@cpc C R).
  Notation label := (@label E X C R).
  Notation msg := (@msg E X).
  Notation item := (@item E X).
  Notation cstep := (@cstep E X D C R api closed_result).
  Notation crun := (@crun E X D C R api closed_result).
  Notation reachable := (@reachable E X D C R api closed_result).
  Notation thread_step := (@thread_step E X D C R api closed_result).
  Notation reader_step := (@reader_step E X D C R).
  Notation cinit := (@cinit E X D C R).

  (* ---------- runs ---------- *)
  Lemma crun_snoc cap cf (s : cstate) ls l :
    crun cap cf s (ls ++ [l]) = crun cap cf s ls ≫= λ s', cstep cap cf s' l.
  Proof.
    revert s; induction ls as [|l0 ls IH]; intros s; simpl.
    - destruct (cstep cap cf s l); done.
    - destruct (cstep cap cf s l0); auto.
  Qed.

  Lemma reachable_init cap cf d : reachable cap cf d (cinit d).
  Proof. by exists []. Qed.

  Lemma reachable_step cap cf d s l s' :
    reachable cap cf d s → cstep cap cf s l = Some s' → reachable cap cf d s'.
  Proof. intros [ls Hr] Hs. exists (ls ++ [l]). rewrite crun_snoc, Hr. done. Qed.

  Lemma reachable_induction cap cf d (P : cstate → Prop) :
    P (cinit d) →
    (∀ s l s', reachable cap cf d s → P s → cstep cap cf s l = Some s' → P s') →
    ∀ s, reachable cap cf d s → P s.
  Proof.
    intros H0 HS s [ls Hr]. revert s Hr.
    induction ls as [|l ls IH] using rev_ind; intros s Hr.
    - simpl in Hr. by simplify_eq.
    - rewrite crun_snoc in Hr. destruct (crun cap cf (cinit d) ls) as [s0|] eqn:Hr0; [|done].
      simpl in Hr. eapply HS; [by exists ls| by apply IH |done].
  Qed.

  (* ---------- 1. the protocol invariant is inductive ---------- *)
  Lemma cinv_init cap d : CInv cap (cinit d).
  Proof.
    constructor; simpl; try done; try (intros; simplify_map_eq; done); try lia.
    - intros t Ht. split; [done|]. intros (p & Hp & _). by simplify_map_eq.
    - intros [|[|]]; done.
  Qed.

  Lemma cinv_reader cap cf s s' : CInv cap s → reader_step cap cf s = Some s' → CInv cap s'.
  Proof.
    intros [H1 H2 H3 H4 H5 H6 H7 H8 H9 H10 H11 H12 H13] Hs.
    destruct s as [m dc fc rc eb ec erc r th dt rev rer ln pk]; simpl in *.
    unfold reader_step in Hs; simpl in Hs.
    destruct r; repeat case_match; simplify_eq; constructor; simpl in *.
    all: try done.
    all: unfold after_pre, after_post in *.
    all: try (rewrite ?app_length; simpl; lia).
    all: try (apply not_true_is_false; intros ?).
    all: try (intuition congruence).
    all: try (timeout 20 naive_solver).
  Admitted.
End Safety.
