(* ConcSafety.v — safety theorems about the goroutine-level model of Conc.v, for every capacity of Events, every
   pair of code facts, every schedule (label sequence), every number of callers and closers, every consumer pace. *)
From stdpp Require Import gmap list.
From Fsn Require Import Conc ConcDefs.
Local Open Scope nat_scope.

Section Safety.
  Context {E X D C R : Type}.
  Variable api : D → C → D * R.
  Variable closed_result : C → R.
  Notation cstate := (@cstate E X D C R).
  Notation rpc := (@rpc E X).
  Notation cpc := (@cpc C R).
  Notation label := (@label E X C R).
  Notation msg := (@msg E X).
  Notation item := (@item E X).
  Notation cstep := (@cstep E X D C R api closed_result).
  Notation crun := (@crun E X D C R api closed_result).
  Notation reachable := (@reachable E X D C R api closed_result).
  Notation thread_step := (@thread_step E X D C R api closed_result).
  Notation reader_step := (@reader_step E X D C R).
  Notation cinit := (@cinit E X D C R).

  (* ---------- runs ---------- *)
  Lemma crun_snoc cap cf (s : cstate) ls l :
    crun cap cf s (ls ++ [l]) = crun cap cf s ls ≫= λ s', cstep cap cf s' l.
  Proof.
    revert s; induction ls as [|l0 ls IH]; intros s; simpl.
    - destruct (cstep cap cf s l); done.
    - destruct (cstep cap cf s l0); auto.
  Qed.

  Lemma reachable_init cap cf d : reachable cap cf d (cinit d).
  Proof. by exists []. Qed.

  Lemma reachable_step cap cf d s l s' :
    reachable cap cf d s → cstep cap cf s l = Some s' → reachable cap cf d s'.
  Proof. intros [ls Hr] Hs. exists (ls ++ [l]). rewrite crun_snoc, Hr. done. Qed.

  Lemma reachable_induction cap cf d (P : cstate → Prop) :
    P (cinit d) →
    (∀ s l s', reachable cap cf d s → P s → cstep cap cf s l = Some s' → P s') →
    ∀ s, reachable cap cf d s → P s.
  Proof.
    intros H0 HS s [ls Hr]. revert s Hr.
    induction ls as [|l ls IH] using rev_ind; intros s Hr.
    - simpl in Hr. by simplify_eq.
    - rewrite crun_snoc in Hr. destruct (crun cap cf (cinit d) ls) as [s0|] eqn:Hr0; [|done].
      simpl in Hr. eapply HS; [by exists ls| by apply IH |done].
  Qed.

  (* ---------- 1. the protocol invariant is inductive ---------- *)
  Lemma cinv_init cap d : CInv cap (cinit d).
  Proof.
    constructor; simpl; try done; try (intros; simplify_map_eq; done); try lia.
    - intros t Ht. split; [done|]. intros (p & Hp & _). by simplify_map_eq.
    - intros [|[|]]; done.
  Qed.

  Lemma cinv_reader cap cf s s' : CInv cap s → reader_step cap cf s = Some s' → CInv cap s'.
  Proof.
    intros [H1 H2 H3 H4 H5 H6 H7 H8 H9 H10 H11 H12 H13] Hs.
    destruct s as [m dc fc rc eb ec erc r th dt rev rer ln pk]; simpl in *.
    unfold reader_step in Hs; simpl in Hs.
    destruct r; repeat case_match; simplify_eq; constructor; simpl in *.
    all: try done.
    all: unfold after_pre, after_post in *.
    all: try (rewrite ?app_length; simpl; lia).
    all: try (apply not_true_is_false; intros ?).
    all: try (intuition congruence).
    all: try (intros t Ht; specialize (H2 t Ht); destruct H1 as [H1a H1b]; split;
              [intros ?; simplify_eq; done | intros Hp; apply H2 in Hp; try specialize (H1b eq_refl); congruence]).
  Qed.

  Lemma cinv_thread cap cf s t s' : t ≠ reader_tid → CInv cap s → thread_step cf s t = Some s' → CInv cap s'.
  Proof.
    intros Ht [H1 H2 H3 H4 H5 H6 H7 H8 H9 H10 H11 H12 H13] Hs.
    destruct s as [m dc fc rc eb ec erc r th dt rev rer ln pk]; simpl in *.
    unfold Conc.thread_step in Hs; simpl in Hs.
    destruct (th !! t) as [p|] eqn:Hp; [|done].
    pose proof (H2 t Ht) as H2t. rewrite Hp in H2t.
    destruct p; repeat case_match; simplify_eq; constructor; simpl in *.
    all: try done.
    all: try (rewrite lookup_insert_ne by done; done).
    all: try (intros _; eapply H12; [exact Hp| tauto]).
    all: try (intros t0 p0 Hl Hk; destruct (decide (t0 = t)) as [->|Hne];
              [rewrite lookup_insert in Hl; simplify_eq; try (eapply H12; [exact Hp| tauto]); naive_solver
              |rewrite lookup_insert_ne in Hl by done; eapply H12; eauto]).
    all: try (intros t0 Hl; destruct (decide (t0 = t)) as [->|Hne];
              [rewrite lookup_insert in Hl; simplify_eq; try (eapply H13; exact Hp)
              |rewrite lookup_insert_ne in Hl by done; eapply H13; eauto]).
    all: try (try (assert (m = Some t) as Hm by (apply H2t; eexists; split; [reflexivity|done]));
              split; [intros ?; congruence | intros Hr; apply H1 in Hr; congruence]).
    all: try (intros t0 Ht0; pose proof (H2 t0 Ht0) as H2a; destruct (decide (t0 = t)) as [->|Hne];
              [rewrite lookup_insert; clear -H2a H2t Ht Ht0 | rewrite lookup_insert_ne by done; clear -H2a H2t Ht Ht0 Hne];
              timeout 20 naive_solver).
  Qed.

  Ltac cinv_fin :=
    try done; try (rewrite ?app_length in *; simpl in *; lia);
    try (apply not_true_is_false; intros ?); try (intuition congruence).

  Lemma cinv_consume_ev cap (s s' : cstate) : CInv cap s → consume_ev s = Some s' → CInv cap s'.
  Proof.
    intros [H1 H2 H3 H4 H5 H6 H7 H8 H9 H10 H11 H12 H13] Hs.
    destruct s as [m dc fc rc eb ec erc r th dt rev rer ln pk]; simpl in *.
    unfold consume_ev in Hs; simpl in Hs.
    repeat case_match; simplify_eq; constructor; simpl in *.
    all: cinv_fin.
  Qed.

  Lemma cinv_consume_er cap (s s' : cstate) : CInv cap s → consume_er s = Some s' → CInv cap s'.
  Proof.
    intros [H1 H2 H3 H4 H5 H6 H7 H8 H9 H10 H11 H12 H13] Hs.
    destruct s as [m dc fc rc eb ec erc r th dt rev rer ln pk]; simpl in *.
    unfold consume_er in Hs; simpl in Hs.
    repeat case_match; simplify_eq; constructor; simpl in *.
    all: cinv_fin.
  Qed.

  Lemma cinv_kernel cap cf s b s' : CInv cap s → cstep cap cf s (LKernel b) = Some s' → CInv cap s'.
  Proof.
    intros [H1 H2 H3 H4 H5 H6 H7 H8 H9 H10 H11 H12 H13] Hs.
    destruct s as [m dc fc rc eb ec erc r th dt rev rer ln pk]; simpl in *.
    repeat case_match; simplify_eq; constructor; simpl in *.
    all: cinv_fin.
  Qed.

  Lemma cinv_spawn cap cf s t p s' : CInv cap s → cstep cap cf s (LSpawn t p) = Some s' → CInv cap s'.
  Proof.
    intros [H1 H2 H3 H4 H5 H6 H7 H8 H9 H10 H11 H12 H13] Hs.
    destruct s as [m dc fc rc eb ec erc r th dt rev rer ln pk]; simpl in *.
    destruct (decide (t = reader_tid)) as [|Ht]; [done|].
    destruct (th !! t) eqn:Hp; [by destruct p|].
    assert (∃ s0, Some s0 = Some s' ∧ s0 = upd_thr (mkC m dc fc rc eb ec erc r th dt rev rer ln pk) t p
            ∧ thread_in_cs p = false ∧ p ≠ KCloseFile ∧ p ≠ KWaitResp ∧ p ≠ KDone) as (s0 & Hs0 & -> & Hc & Hk1 & Hk2 & Hk3).
    { destruct p; try done; eexists; split; try exact Hs; done. }
    clear Hs. simplify_eq. unfold upd_thr. constructor; simpl in *.
    all: cinv_fin.
    - intros t0 Ht0. specialize (H2 t0 Ht0). destruct (decide (t0 = t)) as [->|Hne].
      + rewrite lookup_insert. rewrite Hp in H2. split.
        * intros Hm. apply H2 in Hm as (? & ? & _). done.
        * intros (p0 & ? & ?). simplify_eq. congruence.
      + by rewrite lookup_insert_ne.
    - by rewrite lookup_insert_ne.
    - intros t0 p0 Hl Hk. destruct (decide (t0 = t)) as [->|Hne].
      + rewrite lookup_insert in Hl. simplify_eq. tauto.
      + rewrite lookup_insert_ne in Hl by done. eauto.
    - intros t0 Hl. destruct (decide (t0 = t)) as [->|Hne].
      + rewrite lookup_insert in Hl. simplify_eq.
      + rewrite lookup_insert_ne in Hl by done. eauto.
  Qed.

  Theorem cinv_step cap cf s l s' : CInv cap s → cstep cap cf s l = Some s' → CInv cap s'.
  Proof.
    intros HI Hs. destruct l as [t| | |b|t p].
    - simpl in Hs. destruct (decide (t = reader_tid)) as [->|Ht].
      + by eapply cinv_reader.
      + by eapply cinv_thread.
    - by eapply cinv_consume_ev.
    - by eapply cinv_consume_er.
    - by eapply cinv_kernel.
    - by eapply cinv_spawn.
  Qed.

  Theorem cinv_reachable cap cf d s : reachable cap cf d s → CInv cap s.
  Proof.
    revert s. apply reachable_induction; [apply cinv_init|].
    intros s l s' _ HI Hs. by eapply cinv_step.
  Qed.

  (* ---------- 2. no panic ---------- *)
  Theorem no_panic cap cf d s : reachable cap cf d s → panicked s = false.
  Proof. intros Hr. by apply (ci_no_panic _ _ (cinv_reachable _ _ _ _ Hr)). Qed.

  (* ---------- 3. mutual exclusion ---------- *)
  Lemma cinv_holder_thread cap (s : cstate) t p :
    CInv cap s → thr s !! t = Some p → thread_in_cs p = true → t ≠ reader_tid ∧ mu s = Some t.
  Proof.
    intros HI Hp Hc. assert (t ≠ reader_tid) as Ht.
    { intros ->. rewrite (ci_no_reader_thread _ _ HI) in Hp. done. }
    split; [done|]. apply (ci_thread_mu _ _ HI t Ht). eauto.
  Qed.

  Theorem mutual_exclusion cap cf d s :
    reachable cap cf d s →
    (∀ t1 t2, mu s = Some t1 → mu s = Some t2 → t1 = t2) ∧
    (∀ t1 t2 p1 p2, thr s !! t1 = Some p1 → thr s !! t2 = Some p2 →
                    thread_in_cs p1 = true → thread_in_cs p2 = true → t1 = t2) ∧
    (∀ t p, thr s !! t = Some p → thread_in_cs p = true → reader_in_cs (rd s) = false).
  Proof.
    intros Hr. pose proof (cinv_reachable _ _ _ _ Hr) as HI. split; [|split].
    - intros t1 t2 H1 H2. congruence.
    - intros t1 t2 p1 p2 Hp1 Hp2 Hc1 Hc2.
      destruct (cinv_holder_thread _ _ _ _ HI Hp1 Hc1) as [_ Hm1].
      destruct (cinv_holder_thread _ _ _ _ HI Hp2 Hc2) as [_ Hm2]. congruence.
    - intros t p Hp Hc. destruct (cinv_holder_thread _ _ _ _ HI Hp Hc) as [Ht Hm].
      apply not_true_is_false. intros Hrd. apply (ci_reader_mu _ _ HI) in Hrd. congruence.
  Qed.

  (* ---------- 4. nothing blocks inside a critical section ---------- *)
  Ltac step_cases Hs :=
    match type of Hs with
    | Conc.cstep _ _ _ _ ?s ?l = Some _ =>
      destruct s as [m dc fc rc eb ec erc r th dt rev rer ln pk]; destruct l as [t| | |b|t p]; simpl in Hs;
      unfold Conc.reader_step, Conc.thread_step, consume_ev, consume_er, upd_thr, upd_rd, upd_mu, after_pre, after_post in Hs;
      simpl in Hs;
      repeat (match type of Hs with context [ match ?x with _ => _ end ] => destruct x eqn:? end;
              simpl in Hs; try discriminate Hs);
      simplify_eq
    end.

  Definition is_cssend (p : rpc) : bool := match p with RCsSend _ _ _ => true | _ => false end.

  Lemma no_cssend_step cap cf s l s' :
    cf_send_in_cs cf = false → is_cssend (rd s) = false → cstep cap cf s l = Some s' → is_cssend (rd s') = false.
  Proof. intros Hcf Hc Hs. step_cases Hs; simpl in *; done. Qed.

  Lemma no_cssend_reachable cap cf d s :
    cf_send_in_cs cf = false → reachable cap cf d s → is_cssend (rd s) = false.
  Proof.
    intros Hcf. revert s. apply reachable_induction; [done|].
    intros s l s' _ HI Hs. by eapply no_cssend_step.
  Qed.

  Theorem no_blocking_in_cs cap cf d s :
    cf_send_in_cs cf = false → reachable cap cf d s →
    (∀ ms a r, rd s ≠ RCsSend ms a r) ∧ (reader_step cap cf s = None → mu s ≠ Some reader_tid).
  Proof.
    intros Hcf Hr. pose proof (no_cssend_reachable _ _ _ _ Hcf Hr) as Hn.
    pose proof (cinv_reachable _ _ _ _ Hr) as HI. split.
    - intros ms a r Hrd. rewrite Hrd in Hn. done.
    - intros Hnone Hmu. apply (ci_reader_mu _ _ HI) in Hmu.
      unfold Conc.reader_step in Hnone. destruct (rd s); try done. by rewrite Hcf in Hnone.
  Qed.

  (* a caller or closer inside its critical section can always take its next step *)
  Theorem cs_thread_not_blocked cap cf (s : cstate) t p :
    t ≠ reader_tid → thr s !! t = Some p → thread_in_cs p = true → is_Some (cstep cap cf s (LThr t)).
  Proof.
    intros Ht Hp Hc. simpl. destruct (decide (t = reader_tid)); [done|].
    unfold Conc.thread_step. rewrite Hp. destruct p; try done.
    - destruct (api (data s) c); eauto.
    - destruct (done_closed s); eauto.
  Qed.

  (* ---------- 5. order and completeness of delivery, for every capacity ---------- *)
  Lemma evs_of_app (a b : list msg) : evs_of (a ++ b) = evs_of a ++ evs_of b.
  Proof. apply omap_app. Qed.
  Lemma ers_of_app (a b : list msg) : ers_of (a ++ b) = ers_of a ++ ers_of b.
  Proof. apply omap_app. Qed.
  Lemma evs_of_nil : evs_of ([] : list msg) = [].
  Proof. done. Qed.
  Lemma ers_of_nil : ers_of ([] : list msg) = [].
  Proof. done. Qed.
  Lemma evs_of_cons_ev e (ms : list msg) : evs_of (MEv e :: ms) = e :: evs_of ms.
  Proof. done. Qed.
  Lemma evs_of_cons_er x (ms : list msg) : evs_of (MEr x :: ms) = evs_of ms.
  Proof. done. Qed.
  Lemma ers_of_cons_ev e (ms : list msg) : ers_of (MEv e :: ms) = ers_of ms.
  Proof. done. Qed.
  Lemma ers_of_cons_er x (ms : list msg) : ers_of (MEr x :: ms) = x :: ers_of ms.
  Proof. done. Qed.
  #[local] Opaque evs_of ers_of.
  Lemma evs_of_err_msgs (l : list msg) : evs_of (err_msgs l) = [].
  Proof. induction l as [|[e|x] l IH]; simpl; rewrite ?evs_of_cons_ev, ?evs_of_cons_er; auto. Qed.
  Lemma evs_of_ev_msgs (l : list msg) : evs_of (ev_msgs l) = evs_of l.
  Proof. induction l as [|[e|x] l IH]; simpl; rewrite ?evs_of_cons_ev, ?evs_of_cons_er; auto. by f_equal. Qed.
  Lemma ers_of_err_msgs (l : list msg) : ers_of (err_msgs l) = ers_of l.
  Proof. induction l as [|[e|x] l IH]; simpl; rewrite ?ers_of_cons_ev, ?ers_of_cons_er; auto. by f_equal. Qed.
  Lemma ers_of_ev_msgs (l : list msg) : ers_of (ev_msgs l) = [].
  Proof. induction l as [|[e|x] l IH]; simpl; rewrite ?ers_of_cons_ev, ?ers_of_cons_er; auto. Qed.
  Lemma evs_of_split (l : list msg) : evs_of (err_msgs l ++ ev_msgs l) = evs_of l.
  Proof. by rewrite evs_of_app, evs_of_err_msgs, evs_of_ev_msgs. Qed.
  Lemma ers_of_split (l : list msg) : ers_of (err_msgs l ++ ev_msgs l) = ers_of l.
  Proof. by rewrite ers_of_app, ers_of_err_msgs, ers_of_ev_msgs, app_nil_r. Qed.

  Lemma delivered_app (l1 l2 : list label) : delivered (l1 ++ l2) = delivered l1 ++ delivered l2.
  Proof.
    induction l1 as [|l l1 IH]; [done|]. destruct l; simpl; try done. by rewrite IH, app_assoc.
  Qed.

  (* the mutex-held sends of handleEvent are error sends only *)
  Definition CsErrOnly (s : cstate) : Prop := match rd s with RCsSend ms _ _ => evs_of ms = [] | _ => True end.

  Lemma cs_err_only_step cap cf s l s' : CsErrOnly s → cstep cap cf s l = Some s' → CsErrOnly s'.
  Proof.
    unfold CsErrOnly. intros Hc Hs. step_cases Hs; simpl in *; try done.
    all: rewrite ?evs_of_err_msgs, ?evs_of_cons_er, ?evs_of_cons_ev in *; try done.
  Qed.

  Lemma cs_err_only_reachable cap cf d s : reachable cap cf d s → CsErrOnly s.
  Proof.
    revert s. apply reachable_induction; [done|].
    intros s l s' _ HI Hs. by eapply cs_err_only_step.
  Qed.

  Definition FifoEv (del : list msg) (s : cstate) : Prop :=
    ∃ dropped, evs_of del = recvd_ev s ++ ev_buf s ++ evs_of (pending_msgs (rd s)) ++ dropped
               ∧ (reader_exiting (rd s) = false → dropped = []).
  Definition FifoEr (del : list msg) (s : cstate) : Prop :=
    ∃ dropped, ers_of del = recvd_er s ++ ers_of (pending_msgs (rd s)) ++ dropped
               ∧ (reader_exiting (rd s) = false → dropped = []).

  Lemma fifo_ev_step cap cf del s l s' :
    CsErrOnly s → FifoEv del s → cstep cap cf s l = Some s' → FifoEv (del ++ delivered [l]) s'.
  Proof.
    unfold CsErrOnly, FifoEv. intros Hc (dr & Heq & Hdr) Hs. rewrite evs_of_app, Heq. clear Heq.
    step_cases Hs; simpl in *; try specialize (Hdr eq_refl); subst.
    all: try (rewrite evs_of_cons_ev in Hc; discriminate Hc).
    all: match goal with
         | |- ∃ d, _ ∧ (true = false → _) => eexists; split; [rewrite <- ?app_assoc; reflexivity | by intros [=]]
         | |- ∃ d, _ ∧ (false = false → _) => exists []; split; [|done]
         | |- _ => exists dr; split; [|exact Hdr]
         end.
    all: unfold item_msgs;
         rewrite ?evs_of_cons_ev, ?evs_of_cons_er, ?evs_of_app, ?evs_of_err_msgs, ?evs_of_ev_msgs, ?evs_of_nil.
    all: rewrite ?app_nil_r, <- ?app_assoc; simpl; try reflexivity.
  Qed.

  Lemma fifo_er_step cap cf del s l s' :
    FifoEr del s → cstep cap cf s l = Some s' → FifoEr (del ++ delivered [l]) s'.
  Proof.
    unfold FifoEr. intros (dr & Heq & Hdr) Hs. rewrite ers_of_app, Heq. clear Heq.
    step_cases Hs; simpl in *; try specialize (Hdr eq_refl); subst.
    all: match goal with
         | |- ∃ d, _ ∧ (true = false → _) => eexists; split; [rewrite <- ?app_assoc; reflexivity | by intros [=]]
         | |- ∃ d, _ ∧ (false = false → _) => exists []; split; [|done]
         | |- _ => exists dr; split; [|exact Hdr]
         end.
    all: unfold item_msgs;
         rewrite ?ers_of_cons_ev, ?ers_of_cons_er, ?ers_of_app, ?ers_of_err_msgs, ?ers_of_ev_msgs, ?ers_of_nil.
    all: rewrite ?app_nil_r, <- ?app_assoc; simpl; try reflexivity.
  Qed.

  Lemma fifo_run cap cf d ls s :
    crun cap cf (cinit d) ls = Some s → CsErrOnly s ∧ FifoEv (delivered ls) s ∧ FifoEr (delivered ls) s.
  Proof.
    revert s. induction ls as [|l ls IH] using rev_ind; intros s Hr.
    - simpl in Hr. simplify_eq. split; [done|].
      split; exists []; simpl; by rewrite ?evs_of_nil, ?ers_of_nil.
    - rewrite crun_snoc in Hr. destruct (crun cap cf (cinit d) ls) as [s0|] eqn:Hr0; [|done].
      simpl in Hr. destruct (IH s0 eq_refl) as (Hc & Hev & Her). rewrite delivered_app.
      split; [by eapply cs_err_only_step|]. split; [by eapply fifo_ev_step | by eapply fifo_er_step].
  Qed.

  (* The statement does not mention cap except as the parameter of crun: what the consumer has received on Events
     (and what sits in the buffer) is a prefix of the one stream the kernel delivered, for every capacity, every
     schedule and every consumer pace; nothing is lost or reordered until the reader starts exiting. *)
  Theorem events_fifo cap cf d ls s :
    crun cap cf (cinit d) ls = Some s →
    (∃ dropped, evs_of (delivered ls) = recvd_ev s ++ ev_buf s ++ evs_of (pending_msgs (rd s)) ++ dropped
                ∧ (reader_exiting (rd s) = false → dropped = [])) ∧
    (reader_exiting (rd s) = false →
     recvd_ev s ++ ev_buf s ++ evs_of (pending_msgs (rd s)) = evs_of (delivered ls)) ∧
    (recvd_ev s ++ ev_buf s) `prefix_of` evs_of (delivered ls).
  Proof.
    intros Hr. destruct (fifo_run _ _ _ _ _ Hr) as (_ & (dr & Heq & Hdr) & _). split; [by exists dr|]. split.
    - intros Hex. rewrite Heq, (Hdr Hex), app_nil_r. done.
    - rewrite Heq. exists (evs_of (pending_msgs (rd s)) ++ dr). by rewrite <- app_assoc.
  Qed.

  Theorem errors_fifo cap cf d ls s :
    crun cap cf (cinit d) ls = Some s →
    (∃ dropped, ers_of (delivered ls) = recvd_er s ++ ers_of (pending_msgs (rd s)) ++ dropped
                ∧ (reader_exiting (rd s) = false → dropped = [])) ∧
    (reader_exiting (rd s) = false → recvd_er s ++ ers_of (pending_msgs (rd s)) = ers_of (delivered ls)) ∧
    recvd_er s `prefix_of` ers_of (delivered ls).
  Proof.
    intros Hr. destruct (fifo_run _ _ _ _ _ Hr) as (_ & _ & (dr & Heq & Hdr)). split; [by exists dr|]. split.
    - intros Hex. rewrite Heq, (Hdr Hex), app_nil_r. done.
    - rewrite Heq. by eexists.
  Qed.

  (* independence from the buffer size: two runs with different capacities (and schedules, consumers, code facts) that
     were handed the same notifications have received comparable sequences: one is a prefix of the other *)
  Corollary capacity_independent cap1 cap2 cf1 cf2 d1 d2 ls1 ls2 s1 s2 :
    crun cap1 cf1 (cinit d1) ls1 = Some s1 → crun cap2 cf2 (cinit d2) ls2 = Some s2 →
    delivered ls1 = delivered ls2 →
    (recvd_ev s1 `prefix_of` recvd_ev s2 ∨ recvd_ev s2 `prefix_of` recvd_ev s1) ∧
    (recvd_er s1 `prefix_of` recvd_er s2 ∨ recvd_er s2 `prefix_of` recvd_er s1).
  Proof.
    intros H1 H2 Hd.
    destruct (events_fifo _ _ _ _ _ H1) as (_ & _ & Hp1). destruct (events_fifo _ _ _ _ _ H2) as (_ & _ & Hp2).
    destruct (errors_fifo _ _ _ _ _ H1) as (_ & _ & Hq1). destruct (errors_fifo _ _ _ _ _ H2) as (_ & _ & Hq2).
    rewrite Hd in Hp1, Hq1. split.
    - apply (prefix_weak_total _ _ (evs_of (delivered ls2))).
      + etrans; [|exact Hp1]. by eexists.
      + etrans; [|exact Hp2]. by eexists.
    - eapply prefix_weak_total; eassumption.
  Qed.

  (* ---------- 6. linearizability ---------- *)
  Lemma seq_run_app d (cs1 cs2 : list (C * R)) :
    seq_run api d (cs1 ++ cs2) = seq_run api d cs1 ≫= λ d1, seq_run api d1 cs2.
  Proof.
    revert d. induction cs1 as [|[c r] cs1 IH]; intros d; simpl; [done|]. destruct (api d c). apply IH.
  Qed.

  Lemma seq_results_ok_snoc d cs c r d1 :
    seq_run api d cs = Some d1 → seq_results_ok api d cs → (api d1 c).2 = r → seq_results_ok api d (cs ++ [(c, r)]).
  Proof.
    intros Hrun Hok Hr pre c0 r0 post Heq. destruct post as [|x post _] using rev_ind.
    - apply app_inj_tail in Heq as [-> Hx]. simplify_eq. eauto.
    - rewrite app_comm_cons, app_assoc in Heq. apply app_inj_tail in Heq as [Heq _]. eapply Hok; eauto.
  Qed.

  Definition LinInv (d : D) (s : cstate) : Prop := seq_run api d (lin s) = Some (data s) ∧ seq_results_ok api d (lin s).

  Lemma lin_inv_step cap cf d s l s' : LinInv d s → cstep cap cf s l = Some s' → LinInv d s'.
  Proof.
    unfold LinInv. intros [Hrun Hok] Hs. step_cases Hs; simpl in *; try done.
    split.
    - rewrite seq_run_app, Hrun. simpl. by match goal with H : api _ _ = _ |- _ => rewrite H end.
    - eapply seq_results_ok_snoc; [done..|]. by match goal with H : api _ _ = _ |- _ => rewrite H end.
  Qed.

  Theorem linearizable cap cf d ls s :
    crun cap cf (cinit d) ls = Some s → seq_run api d (lin s) = Some (data s) ∧ seq_results_ok api d (lin s).
  Proof.
    intros Hr. assert (reachable cap cf d s) as Hre by (by exists ls). clear Hr. revert s Hre.
    apply (reachable_induction cap cf d (LinInv d)).
    - split; [done|]. intros pre c r post Heq. by destruct pre.
    - intros s l s' _ HI Hs. by eapply lin_inv_step.
  Qed.

  (* real-time order: a call enters lin exactly at its critical-section step, i.e. after its spawn and before its
     return, with the result it returns and computed from the data of that moment; lin only grows at the end *)
  Theorem lin_point cap cf (s : cstate) t c s' :
    t ≠ reader_tid → thr s !! t = Some (CInCs c) → cstep cap cf s (LThr t) = Some s' →
    ∃ r, thr s' !! t = Some (CDone r) ∧ lin s' = lin s ++ [(c, r)] ∧ api (data s) c = (data s', r) ∧ mu s' = None.
  Proof.
    intros Ht Hp Hs. simpl in Hs. destruct (decide (t = reader_tid)); [done|].
    unfold Conc.thread_step in Hs. rewrite Hp in Hs. destruct (api (data s) c) as [d' r] eqn:Ha.
    simplify_eq. exists r. simpl. by rewrite lookup_insert.
  Qed.

  Theorem lin_mono cap cf s l s' : cstep cap cf s l = Some s' → lin s `prefix_of` lin s'.
  Proof. intros Hs. step_cases Hs; simpl; try done. by eexists. Qed.

  Lemma lin_mono_run cap cf s ls s' : crun cap cf s ls = Some s' → lin s `prefix_of` lin s'.
  Proof.
    revert s. induction ls as [|l ls IH]; intros s Hr; simpl in Hr; [by simplify_eq|].
    destruct (cstep cap cf s l) as [s1|] eqn:Hs; [|done]. etrans; [by eapply lin_mono|by apply IH].
  Qed.

  Corollary lin_call_stays cap cf (s : cstate) t c s1 ls s2 :
    t ≠ reader_tid → thr s !! t = Some (CInCs c) → cstep cap cf s (LThr t) = Some s1 → crun cap cf s1 ls = Some s2 →
    ∃ r, thr s1 !! t = Some (CDone r) ∧ (c, r) ∈ lin s2.
  Proof.
    intros Ht Hp Hs Hr. destruct (lin_point _ _ _ _ _ _ Ht Hp Hs) as (r & Hd & Hl & _). exists r. split; [done|].
    destruct (lin_mono_run _ _ _ _ _ Hr) as [k ->]. rewrite Hl. set_solver.
  Qed.

  Theorem lin_only_in_cs cap cf s l s' :
    cstep cap cf s l = Some s' → lin s' ≠ lin s → ∃ t c, l = LThr t ∧ thr s !! t = Some (CInCs c).
  Proof. intros Hs Hne. step_cases Hs; simpl in *; try done. eauto. Qed.

  (* ---------- 7. inert after Close ---------- *)
  Theorem inert_after_close cap cf (s : cstate) t c :
    cf_guard_first cf = true → done_closed s = true → thr s !! t = Some (CStart c) → t ≠ reader_tid →
    ∃ s', cstep cap cf s (LThr t) = Some s' ∧ thr s' !! t = Some (CDone (closed_result c)) ∧ data s' = data s
          ∧ mu s' = mu s.
  Proof.
    intros Hg Hd Hp Ht. simpl. destruct (decide (t = reader_tid)); [done|].
    unfold Conc.thread_step. rewrite Hp, Hg, Hd. simpl. eexists; split; [done|]. simpl. by rewrite lookup_insert.
  Qed.

  Theorem done_stays_closed cap cf s l s' :
    cstep cap cf s l = Some s' →
    (done_closed s = true → done_closed s' = true) ∧ (file_closed s = true → file_closed s' = true) ∧
    (resp_closed s = true → resp_closed s' = true) ∧ (ev_closed s = true → ev_closed s' = true) ∧
    (er_closed s = true → er_closed s' = true).
  Proof. intros Hs. step_cases Hs; simpl; tauto. Qed.

  Corollary done_stays_closed_run cap cf s ls s' :
    crun cap cf s ls = Some s' → done_closed s = true → done_closed s' = true.
  Proof.
    revert s. induction ls as [|l ls IH]; intros s Hr Hd; simpl in Hr; [by simplify_eq|].
    destruct (cstep cap cf s l) as [s1|] eqn:Hs; [|done]. apply (IH _ Hr). by apply (done_stays_closed _ _ _ _ _ Hs).
  Qed.

  (* ---------- 8. closers ---------- *)
  Theorem close_effects cap cf d s t :
    reachable cap cf d s →
    (thr s !! t = Some KDone → done_closed s = true) ∧
    (thr s !! t = Some KWaitResp → file_closed s = true ∧ done_closed s = true).
  Proof.
    intros Hr. pose proof (cinv_reachable _ _ _ _ Hr) as HI. split.
    - intros Hp. eapply (ci_closer_done _ _ HI); eauto.
    - intros Hp. split; [by eapply (ci_waitresp_file _ _ HI)|]. eapply (ci_closer_done _ _ HI); eauto.
  Qed.

  (* `done` is closed at most once: from a state where it is closed, the critical section of Close goes straight to
     its return and touches no channel ... *)
  Theorem done_closed_once cap cf (s : cstate) t s' :
    t ≠ reader_tid → thr s !! t = Some KInCs → done_closed s = true → cstep cap cf s (LThr t) = Some s' →
    thr s' !! t = Some KDone ∧ done_closed s' = true ∧ file_closed s' = file_closed s ∧ resp_closed s' = resp_closed s
    ∧ ev_closed s' = ev_closed s ∧ er_closed s' = er_closed s ∧ ev_buf s' = ev_buf s ∧ panicked s' = panicked s.
  Proof.
    intros Ht Hp Hd Hs. simpl in Hs. destruct (decide (t = reader_tid)); [done|].
    unfold Conc.thread_step in Hs. rewrite Hp, Hd in Hs. simplify_eq. simpl. by rewrite lookup_insert.
  Qed.

  (* ... and the only step that closes it is that critical section, taken from a state where it is still open *)
  Theorem done_closed_by cap cf s l s' :
    cstep cap cf s l = Some s' → done_closed s = false → done_closed s' = true →
    ∃ t, l = LThr t ∧ t ≠ reader_tid ∧ thr s !! t = Some KInCs ∧ thr s' !! t = Some KCloseFile.
  Proof.
    intros Hs H0 H1. step_cases Hs; simpl in *; try congruence.
    eexists; split; [done|]. split; [done|]. split; [done|]. by rewrite lookup_insert.
  Qed.
End Safety.

(* ---------- 9. non-vacuity: concrete runs ---------- *)
Section Examples.
  Definition ex_api (d c : nat) : nat * nat := (d + c, d).
  Definition ex_closed (c : nat) : nat := 0.
  Definition ex_it1 : @item nat nat := mkItem [] [MEv 10].
  Definition ex_it2 : @item nat nat := mkItem [MEr 7] [MEv 11].
  Definition ex_cf : cfacts := mkCf false true.

  (* capacity 1: a caller, a batch of two notifications, the reader, the consumer, Close, a call after Close, a second Close *)
  Definition ex_labels : list (@label nat nat nat nat) :=
    [ LSpawn 1 (CStart 5); LThr 1; LThr 1; LThr 1;                  (* Add: isClosed?, Lock, critical section *)
      LThr 0; LKernel [ex_it1; ex_it2];                             (* the reader blocks in Read; the kernel delivers *)
      LThr 0; LThr 0; LThr 0; LThr 0; LThr 0; LThr 0;               (* item 1: lock, unlock, event 10 into the buffer *)
      LThr 0; LConsumeEr; LThr 0; LThr 0; LThr 0;                   (* item 2: error 7 by rendezvous, lock, unlock *)
      LConsumeEv; LThr 0; LThr 0; LThr 0; LConsumeEv;               (* buffer full until the consumer takes 10; then 11 *)
      LSpawn 2 KStart; LThr 2; LThr 2; LThr 2;                      (* Close: lock, close(done), close the file *)
      LThr 0; LThr 0; LThr 2; LThr 0; LThr 0;                       (* the reader exits; Close returns *)
      LSpawn 3 (CStart 9); LThr 3;                                  (* a call after Close returns closed_result at once *)
      LSpawn 4 KStart; LThr 4; LThr 4 ].                            (* a second Close closes nothing *)

  Example ex_run :
    match crun ex_api ex_closed 1 ex_cf (cinit 0) ex_labels with
    | Some s => recvd_ev s = [10; 11] ∧ recvd_er s = [7] ∧ ev_buf s = [] ∧ lin s = [(5, 0)] ∧ data s = 5
                ∧ thr s !! 1 = Some (CDone 0) ∧ thr s !! 2 = Some KDone ∧ thr s !! 3 = Some (CDone 0)
                ∧ thr s !! 4 = Some KDone ∧ rd s = RDead ∧ mu s = None ∧ panicked s = false
                ∧ done_closed s = true ∧ ev_closed s = true ∧ er_closed s = true
    | None => False
    end.
  Proof. vm_compute. repeat split. Qed.

  (* with capacity 1 the reader is blocked while the buffer is full (label 18 replaced by a reader step) *)
  Example ex_blocked : crun ex_api ex_closed 1 ex_cf (cinit 0) (take 17 ex_labels ++ [LThr 0]) = None.
  Proof. vm_compute. reflexivity. Qed.

  (* capacity 0: every event is handed over by rendezvous; the consumer receives the same sequence *)
  Definition ex_labels0 : list (@label nat nat nat nat) :=
    [ LThr 0; LKernel [ex_it1; ex_it2];
      LThr 0; LThr 0; LThr 0; LThr 0; LConsumeEv; LThr 0;
      LThr 0; LConsumeEr; LThr 0; LThr 0; LThr 0; LConsumeEv; LThr 0; LThr 0;
      LSpawn 2 KStart; LThr 2; LThr 2; LThr 2; LThr 0; LThr 0; LThr 2 ].

  Example ex_run_unbuffered :
    match crun ex_api ex_closed 0 ex_cf (cinit 0) ex_labels0 with
    | Some s => recvd_ev s = [10; 11] ∧ recvd_er s = [7] ∧ thr s !! 2 = Some KDone ∧ panicked s = false
    | None => False
    end.
  Proof. vm_compute. repeat split. Qed.

  (* the variant of the code that sends the error while holding mu (cf_send_in_cs = true): same received sequences *)
  Definition ex_it3 : @item nat nat := mkItem [] [MEv 10; MEr 8].
  Example ex_run_send_in_cs :
    match crun ex_api ex_closed 1 (mkCf true true) (cinit 0)
               [ LThr 0; LKernel [ex_it3]; LThr 0; LThr 0; LThr 0; LThr 0; LConsumeEr; LThr 0; LThr 0; LConsumeEv ] with
    | Some s => recvd_ev s = [10] ∧ recvd_er s = [8] ∧ mu s = None
    | None => False
    end.
  Proof. vm_compute. repeat split. Qed.
End Examples.

Print Assumptions cinv_reachable.
Print Assumptions no_panic.
Print Assumptions mutual_exclusion.
Print Assumptions no_blocking_in_cs.
Print Assumptions events_fifo.
Print Assumptions errors_fifo.
Print Assumptions linearizable.
Print Assumptions done_closed_by.
