(* KqInv.v — proofs about KqModel.v (kqueue backend bookkeeping).

   Method.  Every watcher function of KqModel.v is shown to be a COMPOSITION OF PRIMITIVE TRANSITIONS ([prim], part A:
   purely syntactic, no invariant needed); every primitive is shown to preserve the invariant [KqInv] (part B).
   Together: [kq_inv_step] for all histories, all filesystem contents, all three repair flags.
   Statements that are false for the tree as it is are proved as [_refuted] with a witness history evaluated by
   vm_compute through the same specification predicates (KqModel section 7) the check evaluates on the real code. *)
From Coq Require Import String Ascii NArith List Bool Lia.
From stdpp Require Import gmap strings.
From Fsn Require Import KqModel.
From Fsn Require PathLex PathLexProofs.
Import ListNotations.
Local Open Scope string_scope.
Local Open Scope N_scope.

(* ------------------------------------------------------------------ the invariant *)

Record KqInv (s : st) : Prop := {
  (* ledger = dom wd: every open vnode descriptor is a watch and every watch holds its descriptor *)
  inv_led : ∀ fd, is_Some (k_led (K s) !! fd) ↔ is_Some (t_wd (T s) !! fd);
  (* registrations = dom wd while the kqueue exists *)
  inv_regs : gone s = false → ∀ fd, is_Some (k_regs (K s) !! fd) ↔ is_Some (t_wd (T s) !! fd);
  (* wd and path are mutually consistent (path may hold link entries mapped to descriptor 0) *)
  inv_wd_path : ∀ fd w, t_wd (T s) !! fd = Some w → t_path (T s) !! w_name w = Some fd;
  inv_path_wd : ∀ p fd, t_path (T s) !! p = Some fd → fd ≠ 0 → ∃ w, t_wd (T s) !! fd = Some w ∧ w_name w = p;
  (* descriptor numbers: 0 is never a watch, numbers below k_next only *)
  inv_zero : t_wd (T s) !! 0 = None;
  inv_next : ∀ fd, is_Some (k_led (K s) !! fd) → fd < k_next (K s);
  inv_nextpos : 0 < k_next (K s);
  (* byDir is the index of wd by dirname, without empty buckets *)
  inv_bydir : ∀ d fd, (∃ S, t_bydir (T s) !! d = Some S ∧ fd ∈ S) ↔ (∃ w, t_wd (T s) !! fd = Some w ∧ dir (w_name w) = d);
  inv_bucket : ∀ d S, t_bydir (T s) !! d = Some S → S ≠ ∅;
}.

(* ------------------------------------------------------------------ clean is idempotent *)

(* The path functions of KqModel.v are those of PathLex.v written differently (split_slash without accumulator,
   String.concat, norm with the arguments of clean_comps permuted, clean without the special case for ""): they are
   equal as functions, so the properties proved in PathLexProofs.v carry over. *)
Lemma split_slash_pathlex s : split_slash s = PathLex.split_slash s.
Proof.
  unfold PathLex.split_slash. induction s as [|c r IH]; [reflexivity|].
  cbn [split_slash PathLex.split_slash_aux]. unfold PathLex.is_slash, PathLex.slash, slash.
  destruct (Ascii.eqb c "/"); [rewrite IH; reflexivity|].
  rewrite IH. change ("" ++ String c "") with (String c "").
  rewrite (PathLexProofs.split_aux_cur r (String c "")).
  destruct (PathLex.split_slash_aux r ""); reflexivity.
Qed.

Lemma join_slash_pathlex l : join_slash l = PathLex.join_slash l.
Proof.
  unfold join_slash. induction l as [|x [|y l] IH]; try reflexivity.
  cbn [String.concat PathLex.join_slash] in *. rewrite IH. reflexivity.
Qed.

Lemma norm_pathlex abs : ∀ cs stk, norm abs stk cs = PathLex.clean_comps abs cs stk.
Proof.
  induction cs as [|c r IH]; intros stk; [reflexivity|].
  cbn [norm PathLex.clean_comps]. destruct stk as [|t stk']; rewrite ?IH; reflexivity.
Qed.

Lemma clean_pathlex s : clean s = PathLex.clean s.
Proof.
  destruct s as [|c r]; [reflexivity|].
  unfold clean, PathLex.clean.
  change (PathLex.rooted (String c r)) with (is_abs (String c r)).
  rewrite norm_pathlex, split_slash_pathlex, join_slash_pathlex.
  destruct (is_abs (String c r)); [reflexivity|].
  pose proof (PathLexProofs.clean_comps_split_nf false (String c r)) as Hnf.
  destruct (PathLex.clean_comps false (PathLex.split_slash (String c r)) []) as [|x l] eqn:E; [reflexivity|].
  destruct (PathLex.join_slash (x :: l)) eqn:Ej; [|reflexivity].
  exfalso. revert Ej. apply PathLexProofs.join_nonempty; [eapply PathLexProofs.nf_comp_ok; exact Hnf|discriminate].
Qed.

Theorem clean_idem s : clean (clean s) = clean s.
Proof. rewrite !clean_pathlex. apply PathLexProofs.clean_idem. Qed.

(* ------------------------------------------------------------------ primitive transitions *)

Section prims.
(* [U] delimits the names that may be recorded as user watches *)
Variable U : string → Prop.

Inductive prim : st → st → Prop :=
| p_seen s p b : prim s (set_T (fun t => tb_markSeen t p b) s)
| p_link s p : tb_byPath (T s) p = None → prim s (set_T (fun t => tb_addLink t p) s)
| p_user s p : U p → prim s (set_T (fun t => tb_addUserWatch t p) s)
| p_out s s' : T s' = T s → K s' = K s → gone s' = gone s → (closed s = true → closed s' = true) →
               prim s s'                                                   (* events, errors, held; closed only gets set *)
| p_dflags s p fl t' : is_Some (tb_byPath (T s) p) → tb_updateDirFlags (T s) p fl = Some t' → prim s (set_T (fun _ => t') s)
| p_watch s name link isdir fl k1 fd k2 :
    closed s = false →                                                     (* addWatch refuses once the watcher is closed *)
    tb_byPath (T s) name = None → sys_open (K s) name = inr (k1, fd) → sys_register k1 fd fl = Some k2 →
    clean name = name →                                                    (* a watch is filed under a cleaned name only *)
    (link = "" ∨ clean link = link) →                                      (* … and reports under no name or a cleaned link name *)
    prim s (set_T (fun t => tb_add t name link fd isdir) (set_K (fun _ => k2) s))
| p_rereg s fd fl k1 : sys_register (K s) fd fl = Some k1 → prim s (set_K (fun _ => k1) s)
| p_regfail s fd : k_led (K s) !! fd = None → prim s (set_K (fun k => sys_close k fd) s)
| p_unwatch s name fd w k1 :
    tb_byPath (T s) name = Some (fd, w) → sys_evdelete (K s) fd = Some k1 →
    prim s (set_T (fun _ => fst (tb_remove (T s) fd name)) (set_K (fun _ => sys_close k1 fd) s))
| p_unlist s name fd w :                            (* remove when EV_DELETE fails: the descriptor is closed and unlisted all the same *)
    tb_byPath (T s) name = Some (fd, w) → sys_evdelete (K s) fd = None →
    prim s (set_T (fun _ => fst (tb_remove (T s) fd name)) (set_K (fun k => sys_close k fd) s))
| p_kern s k' :                                     (* filesystem change, notes raised, records retrieved *)
    k_led k' = k_led (K s) → k_regs k' = k_regs (K s) → k_next k' = k_next (K s) → prim s (set_K (fun _ => k') s)
| p_exit s : prim s (reader_exit s).

Definition steps : st → st → Prop := rtc prim.

Lemma steps_refl s : steps s s. Proof. apply rtc_refl. Qed.
Lemma steps_one s s' : prim s s' → steps s s'. Proof. apply rtc_once. Qed.
Lemma steps_trans s1 s2 s3 : steps s1 s2 → steps s2 s3 → steps s1 s3. Proof. apply rtc_transitive. Qed.

(* a property preserved by every primitive is preserved by every composition *)
Lemma steps_ind_inv (P : st → Prop) : (∀ s s', P s → prim s s' → P s') → ∀ s s', steps s s' → P s → P s'.
Proof. intros H s s' Hs. induction Hs; eauto. Qed.

(* ------------------------------------------------------------------ part A: the functions are compositions of primitives *)

Ltac out := apply steps_one, p_out; try reflexivity; try (simpl; intros; congruence); auto.

Lemma sendEvent_steps s e : steps s (sendEvent s e).1.
Proof. unfold sendEvent. repeat case_match; simpl; try apply steps_refl; out. Qed.

Lemma sendError_steps s e : steps s (sendError s e).1.
Proof. unfold sendError. repeat case_match; simpl; try apply steps_refl; out. Qed.

Lemma sys_open_register k p k1 fd fl : sys_open k p = inr (k1, fd) → is_Some (sys_register k1 fd fl).
Proof.
  unfold sys_open, sys_register. destruct (v_open (k_fs k) p); [discriminate|]. intros [= <- <-]. simpl.
  rewrite lookup_insert. eauto.
Qed.

Section addwatch.
  Variable aw : st → string → N → bool → st * res.
  Hypothesis aw_steps : ∀ s n f l, steps s (aw s n f l).1.

  Lemma internalWatch_steps s p k : steps s (internalWatch aw s p k).1.
  Proof. unfold internalWatch. case_match; apply aw_steps. Qed.

  Lemma wdf_loop_steps d names : ∀ s, steps s (wdf_loop aw d names s).1.
  Proof.
    induction names as [|f r IH]; intros s; simpl; [apply steps_refl|].
    destruct (v_lstat (fs_of s) (pjoin d f)); simpl; [apply steps_refl|].
    pose proof (internalWatch_steps s (pjoin d f) k) as Hi.
    destruct (internalWatch aw s (pjoin d f) k) as [s1 r1]. simpl in Hi.
    destruct r1 as [cp|e].
    - eapply steps_trans; [exact Hi|]. eapply steps_trans; [apply steps_one, p_seen|]. apply IH.
    - destruct e as [| |o|]; simpl; try exact Hi.
      destruct o; simpl; try exact Hi.
      eapply steps_trans; [exact Hi|]. eapply steps_trans; [apply steps_one, p_seen|]. apply IH.
  Qed.

  Lemma watchDirectoryFiles_steps s d : steps s (watchDirectoryFiles aw s d).1.
  Proof. unfold watchDirectoryFiles. case_match; simpl; [apply steps_refl|apply wdf_loop_steps]. Qed.

  (* after the registration has been made *)
  Lemma aw_tail_steps (s2 : st) (name link : string) (isdir : bool) (dflags : N) (already : bool) (flags : N) :
    is_Some (tb_byPath (T s2) name) →
    steps s2 ((if isdir then
                match tb_updateDirFlags (T s2) name flags with
                | None => (s2, ROk "")
                | Some t3 =>
                    let s3 := set_T (fun _ => t3) s2 in
                    if has flags NOTE_WRITE && (negb already || negb (has dflags NOTE_WRITE)) then
                      match watchDirectoryFiles aw s3 (if String.eqb link "" then name else link) with
                      | (s4, Some e) => (s4, RErr e)
                      | (s4, None) => (s4, ROk name)
                      end
                    else (s3, ROk name)
                end
              else (s2, ROk name)) : st * res).1.
  Proof.
    intros Hby. destruct isdir; simpl; [|apply steps_refl].
    destruct (tb_updateDirFlags (T s2) name flags) as [t3|] eqn:E; simpl; [|apply steps_refl].
    eapply steps_trans; [apply steps_one, (p_dflags _ _ _ _ Hby E)|].
    case_match; simpl; [|apply steps_refl].
    pose proof (watchDirectoryFiles_steps (set_T (λ _ : tables, t3) s2) (if String.eqb link "" then name else link)) as Hw.
    destruct (watchDirectoryFiles aw _ _) as [s4 [e|]]; simpl in *; exact Hw.
  Qed.
End addwatch.

Lemma addWatch_steps fuel : ∀ s name flags ld, steps s (addWatch fuel s name flags ld).1.
Proof.
  induction fuel as [|fuel IH]; intros s name flags ld; simpl; [apply steps_refl|].
  destruct (closed s) eqn:Ecl; simpl; [apply steps_refl|].
  destruct (tb_byPath (T s) (clean name)) as [[fd info]|] eqn:Eb.
  - (* already watching *)
    unfold aw_finish.
    destruct (sys_register (K s) fd flags) as [k1|] eqn:Er; simpl.
    + eapply steps_trans; [apply steps_one, (p_rereg _ _ _ _ Er)|].
      apply (aw_tail_steps (addWatch fuel) IH (set_K (λ _ : kernel, k1) s) (clean name) (w_link info) (w_isdir info) (w_dflags info) true flags).
      simpl. rewrite Eb. eauto.
    + apply steps_one, p_regfail. unfold sys_register in Er. destruct (k_led (K s) !! fd); [discriminate|reflexivity].
  - destruct (v_lstat (fs_of s) (clean name)) as [e|k]; simpl; [apply steps_refl|].
    destruct (is_fifo k); simpl; [apply steps_refl|].
    assert (Hopen : ∀ s0 nm lk k0, closed s0 = false → tb_byPath (T s0) nm = None → clean nm = nm → (lk = "" ∨ clean lk = lk) →
              steps s0 (match sys_open (K s0) nm with
                        | inl e => (s0, RErr (EOs e))
                        | inr (k1, fd) => aw_finish (addWatch fuel) (set_K (λ _ : kernel, k1) s0) nm fd lk (is_dir k0) 0 false flags
                        end).1).
    { intros s0 nm lk k0 Hc0 Hb Hcl Hlk. destruct (sys_open (K s0) nm) as [e|[k1 fd]] eqn:Eo; [apply steps_refl|].
      unfold aw_finish.
      destruct (sys_open_register _ _ _ _ flags Eo) as [k2 Er].
      change (K (set_K (λ _ : kernel, k1) s0)) with k1. rewrite Er.
      eapply steps_trans; [apply steps_one, (p_watch s0 nm lk (is_dir k0) flags k1 fd k2 Hc0 Hb Eo Er Hcl Hlk)|].
      apply (aw_tail_steps (addWatch fuel) IH _ nm lk (is_dir k0) 0 false flags).
      unfold tb_byPath, tb_add. simpl. rewrite !lookup_insert. simpl. rewrite ?lookup_insert. eauto. }
    destruct (negb ld && is_link k); simpl.
    + destruct (v_readlink (fs_of s) (clean name)) as [e|l]; simpl; [apply steps_refl|].
      set (l' := clean (if is_abs l then l else pjoin (dir (clean name)) l)).
      destruct (tb_byPath (T s) l') as [?|] eqn:El; simpl.
      * apply steps_one, p_link, Eb.
      * destruct (v_lstat (fs_of s) l') as [e|k']; simpl; [apply steps_refl|]. apply Hopen; [exact Ecl|exact El|apply clean_idem|right; apply clean_idem].
    + apply Hopen; [exact Ecl|exact Eb|apply clean_idem|left; reflexivity].
Qed.

Definition user_name (c : cfg) (p : string) : string := if fx_user_clean c then clean p else p.

Lemma api_add_steps c s name : U (user_name c name) → steps s (api_add c s name).1.
Proof.
  intros HU.
  unfold api_add. pose proof (addWatch_steps aw_fuel s name noteAllEvents false) as H.
  destruct (addWatch aw_fuel s name noteAllEvents false) as [s1 [got|e]]; simpl in *; [|exact H].
  case_match; simpl; [exact H|]. eapply steps_trans; [exact H|apply steps_one, p_user, HU].
Qed.

Lemma remove_core_steps fuel : ∀ s name uw, steps s (remove_core fuel s name uw).1.
Proof.
  induction fuel as [|fuel IH]; intros s name uw; [apply steps_refl|].
  cbn [remove_core].
  destruct (tb_byPath (T s) (clean name)) as [[fd w]|] eqn:Eb; [|apply steps_refl].
  destruct (evdelete_err (K s) fd) as [k1 res] eqn:Ee.
  assert (Hq : prim s (set_T (λ _ : tables, (tb_remove (T s) fd (clean name)).1) (set_K (λ _ : kernel, sys_close k1 fd) s))).
  { unfold evdelete_err in Ee. destruct (sys_evdelete (K s) fd) as [k0|] eqn:Ed; injection Ee as <- _.
    - exact (p_unwatch s (clean name) fd w k0 Eb Ed).
    - exact (p_unlist s (clean name) fd w Eb Ed). }
  destruct (tb_remove (T s) fd (clean name)) as [t1 isd] eqn:Et. cbn [fst] in Hq.
  assert (Hp : steps s (set_T (λ _ : tables, t1) (set_K (λ _ : kernel, sys_close k1 fd) s))) by (apply steps_one, Hq).
  destruct (uw && isd); [|exact Hp].
  cbn [fst]. eapply steps_trans; [exact Hp|].
  generalize (set_T (λ _ : tables, t1) (set_K (λ _ : kernel, sys_close k1 fd) s)).
  induction (tb_watchesInDir t1 (clean name)) as [|ch r IHr]; intros s0; [apply steps_refl|].
  cbn [fold_left]. eapply steps_trans; [apply IH|apply IHr].
Qed.

Lemma remove_steps c s name uw : steps s (remove c s name uw).1.
Proof. unfold remove. case_match; [apply steps_refl|apply remove_core_steps]. Qed.

Lemma api_remove_steps c s name : steps s (api_remove c s name).1.
Proof. unfold api_remove. case_match; [apply steps_refl|apply remove_core_steps]. Qed.

Lemma fold_remove_steps l : ∀ s, steps s (fold_left (λ s p, (remove_core (rm_fuel s) s p true).1) l s).
Proof. induction l as [|p r IH]; intros s; [apply steps_refl|]. cbn [fold_left]. eapply steps_trans; [apply remove_core_steps|apply IH]. Qed.

Lemma api_close_steps c s : steps s (api_close c s).
Proof.
  unfold api_close. destruct (closed s); [apply steps_refl|].
  eapply steps_trans; [apply steps_one, (p_out s (set_closed true s)); try reflexivity; auto|].
  eapply steps_trans.
  - instantiate (1 := if fx_close c then _ else _). destruct (fx_close c); [apply fold_remove_steps|apply steps_refl].
  - apply steps_one. apply p_kern; reflexivity.
Qed.

Lemma sendCreateIfNew_steps s p k : steps s (sendCreateIfNew s p k).1.
Proof.
  unfold sendCreateIfNew.
  assert (H0 : steps s (if tb_seenBefore (T s) p then (s, true) else sendEvent s {| e_name := p; e_op := Create |}).1).
  { case_match; simpl; [apply steps_refl|apply sendEvent_steps]. }
  destruct (if tb_seenBefore (T s) p then (s, true) else sendEvent s {| e_name := p; e_op := Create |}) as [s0 sent]. simpl in H0.
  destruct sent; simpl; [|exact H0].
  pose proof (internalWatch_steps aw_entry (addWatch_steps 2) s0 p k) as Hi.
  destruct (internalWatch aw_entry s0 p k) as [s1 [p'|e]]; simpl in *.
  - eapply steps_trans; [exact H0|]. eapply steps_trans; [exact Hi|apply steps_one, p_seen].
  - eapply steps_trans; [exact H0|exact Hi].
Qed.

Lemma dc_loop_steps d names : ∀ s, steps s (dc_loop d names s).1.
Proof.
  induction names as [|f r IH]; intros s; simpl; [apply steps_refl|].
  destruct (v_lstat (fs_of s) (pjoin d f)) as [e|k]; simpl; [destruct e; apply steps_refl|].
  pose proof (sendCreateIfNew_steps s (pjoin d f) k) as H.
  destruct (sendCreateIfNew s (pjoin d f) k) as [s1 [e|]]; simpl in *.
  - destruct (ignorable e); exact H.
  - eapply steps_trans; [exact H|apply IH].
Qed.

Lemma dirChange_steps s d : steps s (dirChange s d).1.
Proof. unfold dirChange. destruct (v_readdir (fs_of s) d) as [e|names]; simpl; [destruct e; apply steps_refl|apply dc_loop_steps]. Qed.

Lemma reader_exit_steps s : steps s (reader_exit s). Proof. apply steps_one, p_exit. Qed.

Lemma after_remove_steps s w ev : steps s (after_remove s w ev).
Proof.
  unfold after_remove. destruct (has (e_op ev) Remove); [|apply steps_refl].
  destruct (w_isdir w).
  - destruct (tb_byPath (T s) (clean (e_name ev))); [|apply steps_refl].
    pose proof (dirChange_steps s (clean (e_name ev))) as H. destruct (dirChange s (clean (e_name ev))) as [s3 e]. simpl in H.
    pose proof (sendError_steps s3 e) as H2. destruct (sendError s3 e) as [s4 sent]. simpl in H2.
    destruct sent; eapply steps_trans; try exact H; try exact H2. eapply steps_trans; [exact H2|apply reader_exit_steps].
  - destruct (v_lstat (fs_of s) (clean (e_name ev))) as [e|k]; [apply steps_refl|].
    pose proof (sendCreateIfNew_steps s (clean (e_name ev)) k) as H. destruct (sendCreateIfNew s (clean (e_name ev)) k) as [s3 e]. simpl in H.
    pose proof (sendError_steps s3 e) as H2. destruct (sendError s3 e) as [s4 sent]. simpl in H2.
    destruct sent; eapply steps_trans; try exact H; try exact H2. eapply steps_trans; [exact H2|apply reader_exit_steps].
Qed.

Lemma handle_steps c s r : steps s (handle c s r).
Proof.
  unfold handle. destruct r as [fd mask]. destruct (N.eqb fd 0); [apply reader_exit_steps|].
  set (w := default watch0 (tb_byWd (T s) fd)). set (ev := newEvent (w_name w) (w_link w) mask).
  set (s1 := if has (e_op ev) Rename || has (e_op ev) Remove then _ else s).
  assert (H1 : steps s s1).
  { subst s1. destruct (has (e_op ev) Rename || has (e_op ev) Remove); [|apply steps_refl].
    eapply steps_trans; [apply remove_steps|apply steps_one, p_seen]. }
  destruct (w_isdir w && has (e_op ev) Write && negb (has (e_op ev) Remove)).
  - eapply steps_trans; [exact H1|]. eapply steps_trans; [apply dirChange_steps|apply after_remove_steps].
  - pose proof (sendEvent_steps s1 ev) as H2. destruct (sendEvent s1 ev) as [s2 sent]. simpl in H2.
    eapply steps_trans; [exact H1|]. eapply steps_trans; [exact H2|]. destruct sent; [apply after_remove_steps|apply reader_exit_steps].
Qed.

Lemma handle_batch_steps c b : ∀ s, steps s (handle_batch c s b).
Proof.
  induction b as [|r rest IH]; intros s; simpl; [apply steps_refl|].
  destruct (gone s); [apply steps_refl|]. eapply steps_trans; [apply handle_steps|apply IH].
Qed.

Lemma read_all_steps c fuel : ∀ s, steps s (read_all c fuel s).
Proof.
  induction fuel as [|fuel IH]; intros s; simpl; [apply steps_refl|].
  destruct (gone s); [apply steps_refl|]. destruct (k_pend (K s)) eqn:E; [apply steps_refl|].
  eapply steps_trans; [|apply IH]. eapply steps_trans; [|apply handle_batch_steps].
  apply steps_one. apply (p_kern s (k_set_pend (skipn 10) (K s))); reflexivity.
Qed.

Lemma settle_steps c s : steps s (settle c s).
Proof. unfold settle. destruct (held s); [apply steps_refl|apply read_all_steps]. Qed.

Lemma fold_raise_kern hints : ∀ k, let k' := fold_left k_raise hints k in
  k_led k' = k_led k ∧ k_regs k' = k_regs k ∧ k_next k' = k_next k.
Proof.
  induction hints as [|[i h] r IH]; intros k; simpl; [auto|].
  destruct (IH (k_raise k (i, h))) as (A & B & C). simpl in *. rewrite A, B, C. unfold k_raise. simpl. auto.
Qed.

Lemma k_fsop_kern k o : let k' := (k_fsop k o).1 in k_led k' = k_led k ∧ k_regs k' = k_regs k ∧ k_next k' = k_next k.
Proof.
  unfold k_fsop. destruct (fs_apply (k_fs k) o) as [[fs' hints]|]; simpl; [|auto].
  destruct (fold_raise_kern hints (k_set_fs (λ _ : fsst, fs') k)) as (A & B & C). simpl in *. auto.
Qed.

Theorem do_step_steps c s x : (∀ p, x = SAdd p → U (user_name c p)) → steps s (do_step c s x).1.
Proof.
  intros HU. destruct x; simpl.
  - pose proof (k_fsop_kern (K s) o) as (A & B & C). destruct (k_fsop (K s) o) as [k1 ok]. simpl in *.
    eapply steps_trans; [apply steps_one, (p_kern s k1 A B C)|apply settle_steps].
  - pose proof (api_add_steps c s p (HU p eq_refl)) as H. destruct (api_add c s p) as [s1 r]. simpl in *.
    eapply steps_trans; [exact H|apply settle_steps].
  - pose proof (api_remove_steps c s p) as H. destruct (api_remove c s p) as [s1 r]. simpl in *.
    eapply steps_trans; [exact H|apply settle_steps].
  - apply steps_refl.
  - eapply steps_trans; [apply steps_one, (p_out s (set_held false s)); try reflexivity; auto|].
    eapply steps_trans; [apply settle_steps|]. eapply steps_trans; [apply api_close_steps|apply settle_steps].
  - out.
  - eapply steps_trans; [apply steps_one, (p_out s (set_held false s)); try reflexivity; auto|apply settle_steps].
  - set (s0 := settle c (set_held false s)).
    assert (H0 : steps s s0).
    { eapply steps_trans; [apply steps_one, (p_out s (set_held false s)); try reflexivity; auto|apply settle_steps]. }
    pose proof (k_fsop_kern (K s0) o) as (A & B & C). destruct (k_fsop (K s0) o) as [k1 ok]. simpl in *.
    eapply steps_trans; [exact H0|].
    eapply steps_trans; [apply steps_one, (p_kern s0 k1 A B C)|].
    eapply steps_trans; [apply steps_one, (p_kern _ (k_set_pend (skipn 10) k1)); reflexivity|].
    eapply steps_trans; [apply api_close_steps|].
    eapply steps_trans; [apply handle_batch_steps|apply settle_steps].
Qed.

Lemma run_steps c h : (∀ p, In (SAdd p) h → U (user_name c p)) → ∀ s, steps s (run c h s).
Proof.
  induction h as [|x r IH]; intros HU s; simpl; [apply steps_refl|].
  eapply steps_trans; [apply do_step_steps; intros p Hx; apply HU; left; exact Hx|apply IH; intros p Hp; apply HU; right; exact Hp].
Qed.

End prims.
Arguments steps_refl {U}. Arguments steps_trans {U}. Arguments steps_one {U}.

(* ------------------------------------------------------------------ part B: every primitive preserves the invariant *)

Lemma byPath_some s p fd w : KqInv s → tb_byPath (T s) p = Some (fd, w) →
  t_path (T s) !! p = Some fd ∧ t_wd (T s) !! fd = Some w ∧ w_name w = p ∧ fd ≠ 0.
Proof.
  intros I. unfold tb_byPath. destruct (t_path (T s) !! p) as [fd'|] eqn:E; simpl.
  - destruct (t_wd (T s) !! fd') as [w'|] eqn:Ew; [|discriminate]. intros [= <- <-].
    assert (fd' ≠ 0) by (intros ->; rewrite (inv_zero _ I) in Ew; discriminate).
    destruct (inv_path_wd _ I _ _ E H) as (w2 & Hw2 & Hn). rewrite Ew in Hw2. injection Hw2 as <-. auto.
  - rewrite (inv_zero _ I). discriminate.
Qed.

Lemma byPath_none s p : KqInv s → tb_byPath (T s) p = None → ∀ fd w, t_wd (T s) !! fd = Some w → w_name w ≠ p.
Proof.
  intros I Hn fd w Hw <-. pose proof (inv_wd_path _ I _ _ Hw) as Hp.
  unfold tb_byPath in Hn. rewrite Hp in Hn. simpl in Hn. rewrite Hw in Hn. discriminate.
Qed.

Lemma byPath_none_path s p fd : KqInv s → tb_byPath (T s) p = None → t_path (T s) !! p = Some fd → fd = 0.
Proof.
  intros I Hn Hp. destruct (decide (fd = 0)) as [|Hz]; [done|].
  destruct (inv_path_wd _ I _ _ Hp Hz) as (w & Hw & _). unfold tb_byPath in Hn. rewrite Hp in Hn. simpl in Hn. rewrite Hw in Hn. discriminate.
Qed.

Lemma inv_same_tables s s' : KqInv s →
  t_wd (T s') = t_wd (T s) → t_path (T s') = t_path (T s) → t_bydir (T s') = t_bydir (T s) →
  k_led (K s') = k_led (K s) → k_regs (K s') = k_regs (K s) → k_next (K s') = k_next (K s) → (gone s' = false → gone s = false) →
  KqInv s'.
Proof.
  intros I A B C D E F G. destruct I. constructor; rewrite ?A, ?B, ?C, ?D, ?E, ?F; auto.
Qed.

Lemma prim_seen s p b : KqInv s → KqInv (set_T (λ t, tb_markSeen t p b) s).
Proof. intros I. eapply inv_same_tables; eauto. Qed.
Lemma prim_user s p : KqInv s → KqInv (set_T (λ t, tb_addUserWatch t p) s).
Proof. intros I. eapply inv_same_tables; eauto. Qed.
Lemma prim_out s s' : KqInv s → T s' = T s → K s' = K s → gone s' = gone s → KqInv s'.
Proof. intros I A B C. eapply inv_same_tables; eauto; rewrite ?A, ?B, ?C; auto. Qed.
Lemma prim_kern s k' : KqInv s → k_led k' = k_led (K s) → k_regs k' = k_regs (K s) → k_next k' = k_next (K s) →
  KqInv (set_K (λ _, k') s).
Proof. intros I A B C. eapply inv_same_tables; eauto. Qed.

Lemma prim_exit s : KqInv s → KqInv (reader_exit s).
Proof. intros I. destruct I. constructor; simpl; auto. discriminate. Qed.

Lemma prim_link s p : KqInv s → tb_byPath (T s) p = None → KqInv (set_T (λ t, tb_addLink t p) s).
Proof.
  intros I Hn. pose proof (byPath_none _ _ I Hn) as Hne. destruct I. constructor; simpl; auto.
  - intros fd w Hw. rewrite lookup_insert_ne; [auto|]. intros E. exact (Hne _ _ Hw (eq_sym E)).
  - intros q fd Hq Hz. destruct (decide (p = q)) as [->|Hd].
    + rewrite lookup_insert in Hq. congruence.
    + rewrite lookup_insert_ne in Hq by done. auto.
Qed.

Lemma prim_dflags s p fl t' : KqInv s → is_Some (tb_byPath (T s) p) → tb_updateDirFlags (T s) p fl = Some t' → KqInv (set_T (λ _, t') s).
Proof.
  intros I [[fd w] Hb] Hu. destruct (byPath_some _ _ _ _ I Hb) as (Hp & Hw & Hn & Hz).
  unfold tb_updateDirFlags in Hu. rewrite Hp in Hu. injection Hu as <-. rewrite Hw. simpl.
  destruct I. constructor; simpl; auto.
  - intros fd'. rewrite inv_led0. destruct (decide (fd = fd')) as [<-|Hd]; [rewrite lookup_insert, Hw; split; eauto|rewrite lookup_insert_ne by done; tauto].
  - intros G fd'. rewrite (inv_regs0 G). destruct (decide (fd = fd')) as [<-|Hd]; [rewrite lookup_insert, Hw; split; eauto|rewrite lookup_insert_ne by done; tauto].
  - intros fd' w'. destruct (decide (fd = fd')) as [<-|Hd].
    + rewrite lookup_insert. intros [= <-]. simpl. rewrite Hn. exact Hp.
    + rewrite lookup_insert_ne by done. auto.
  - intros q fd' Hq Hz'. destruct (inv_path_wd0 _ _ Hq Hz') as (w' & Hw' & Hn').
    destruct (decide (fd = fd')) as [<-|Hd].
    + rewrite lookup_insert. eexists; split; [reflexivity|]. simpl. congruence.
    + rewrite lookup_insert_ne by done. eauto.
  - rewrite lookup_insert_ne by done. auto.
  - intros d fd'. rewrite inv_bydir0. destruct (decide (fd = fd')) as [<-|Hd].
    + rewrite lookup_insert. split; intros (w' & Hw' & Hd').
      * rewrite Hw in Hw'. injection Hw' as <-. eexists; split; [reflexivity|]. simpl. exact Hd'.
      * injection Hw' as <-. simpl in Hd'. eauto.
    + rewrite lookup_insert_ne by done. tauto.
Qed.

Lemma prim_rereg s fd fl k1 : KqInv s → sys_register (K s) fd fl = Some k1 → KqInv (set_K (λ _, k1) s).
Proof.
  intros I Hr. unfold sys_register in Hr. destruct (k_led (K s) !! fd) as [x|] eqn:El; [|discriminate]. injection Hr as <-.
  destruct I. constructor; simpl; auto.
  intros G fd'. destruct (decide (fd = fd')) as [<-|Hd].
  - rewrite lookup_insert. rewrite <- inv_led0, El. split; eauto.
  - rewrite lookup_insert_ne by done. auto.
Qed.

Lemma prim_regfail s fd : KqInv s → k_led (K s) !! fd = None → KqInv (set_K (λ k, sys_close k fd) s).
Proof.
  intros I Hl. assert (Hw : t_wd (T s) !! fd = None).
  { destruct (t_wd (T s) !! fd) eqn:E; [|done]. assert (is_Some (k_led (K s) !! fd)) as [? ?] by (apply (inv_led _ I); eauto). congruence. }
  destruct I. constructor; simpl; auto.
  - intros fd'. rewrite <- inv_led0. destruct (decide (fd = fd')) as [<-|Hd]; [rewrite lookup_delete, Hl; tauto|rewrite lookup_delete_ne by done; tauto].
  - intros G fd'. rewrite <- (inv_regs0 G). destruct (decide (fd = fd')) as [<-|Hd].
    + rewrite lookup_delete. rewrite (inv_regs0 G), Hw. split; intros [? ?]; discriminate.
    + rewrite lookup_delete_ne by done. tauto.
  - intros fd' [x Hx]. apply inv_next0. destruct (decide (fd = fd')) as [<-|Hd]; [rewrite lookup_delete in Hx; discriminate|rewrite lookup_delete_ne in Hx by done; eauto].
Qed.

Lemma prim_watch s name link isdir fl k1 fd k2 : KqInv s →
  tb_byPath (T s) name = None → sys_open (K s) name = inr (k1, fd) → sys_register k1 fd fl = Some k2 →
  KqInv (set_T (λ t, tb_add t name link fd isdir) (set_K (λ _, k2) s)).
Proof.
  intros I Hn Ho Hr.
  unfold sys_open in Ho. destruct (v_open (k_fs (K s)) name) as [|ino]; [discriminate|]. injection Ho as <- <-.
  unfold sys_register in Hr. simpl in Hr. rewrite lookup_insert in Hr. injection Hr as <-.
  set (fd := k_next (K s)).
  assert (Hfl : k_led (K s) !! fd = None).
  { destruct (k_led (K s) !! fd) eqn:E; [|done]. assert (fd < fd) by (apply (inv_next _ I); eauto). lia. }
  assert (Hfw : t_wd (T s) !! fd = None).
  { destruct (t_wd (T s) !! fd) eqn:E; [|done]. assert (is_Some (k_led (K s) !! fd)) as [? ?] by (apply (inv_led _ I); eauto). congruence. }
  assert (Hfz : fd ≠ 0) by (pose proof (inv_nextpos _ I); subst fd; lia).
  pose proof (byPath_none _ _ I Hn) as Hne.
  destruct I. constructor; simpl; auto.
  - intros fd'. destruct (decide (fd = fd')) as [<-|Hd]; [rewrite !lookup_insert; split; eauto|rewrite !lookup_insert_ne by done; auto].
  - intros G fd'. destruct (decide (fd = fd')) as [<-|Hd]; [rewrite !lookup_insert; split; eauto|rewrite !lookup_insert_ne by done; auto].
  - intros fd' w. destruct (decide (fd = fd')) as [<-|Hd].
    + rewrite lookup_insert. intros [= <-]. simpl. apply lookup_insert.
    + rewrite lookup_insert_ne by done. intros Hw. rewrite lookup_insert_ne; [auto|]. intros E. exact (Hne _ _ Hw (eq_sym E)).
  - intros q fd' Hq Hz. destruct (decide (name = q)) as [<-|Hd].
    + rewrite lookup_insert in Hq. injection Hq as <-. rewrite lookup_insert. eauto.
    + rewrite lookup_insert_ne in Hq by done. destruct (inv_path_wd0 _ _ Hq Hz) as (w & Hw & Hn').
      assert (fd ≠ fd') by (intros <-; congruence). rewrite lookup_insert_ne by done. eauto.
  - rewrite lookup_insert_ne by done. auto.
  - intros fd'. destruct (decide (fd = fd')) as [<-|Hd]; [rewrite lookup_insert; intros _; lia|].
    rewrite lookup_insert_ne by done. intros H. specialize (inv_next0 _ H). lia.
  - lia.
  - intros d fd'. split.
    + intros (S & HS & Hin). destruct (decide (dir name = d)) as [<-|Hd].
      * rewrite lookup_insert in HS. injection HS as <-. apply elem_of_union in Hin as [Hin|Hin].
        -- apply elem_of_singleton in Hin as ->. rewrite lookup_insert. eauto.
        -- assert (∃ S0, t_bydir (T s) !! dir name = Some S0 ∧ fd' ∈ S0) as Hold.
           { destruct (t_bydir (T s) !! dir name) as [S0|]; simpl in Hin; [eauto|set_solver]. }
           apply inv_bydir0 in Hold as (w & Hw & Hdw). assert (fd ≠ fd') by (intros <-; congruence).
           rewrite lookup_insert_ne by done. eauto.
      * rewrite lookup_insert_ne in HS by done. assert (∃ S0, t_bydir (T s) !! d = Some S0 ∧ fd' ∈ S0) as Hold by eauto.
        apply inv_bydir0 in Hold as (w & Hw & Hdw). assert (fd ≠ fd') by (intros <-; congruence).
        rewrite lookup_insert_ne by done. eauto.
    + intros (w & Hw & Hdw). destruct (decide (fd = fd')) as [<-|Hd].
      * rewrite lookup_insert in Hw. injection Hw as <-. simpl in Hdw. subst d. rewrite lookup_insert. eexists; split; [reflexivity|set_solver].
      * rewrite lookup_insert_ne in Hw by done. assert (∃ S0, t_bydir (T s) !! d = Some S0 ∧ fd' ∈ S0) as (S0 & HS0 & Hin) by (apply inv_bydir0; eauto).
        destruct (decide (dir name = d)) as [<-|Hd'].
        -- rewrite lookup_insert. eexists; split; [reflexivity|]. rewrite HS0. simpl. set_solver.
        -- rewrite lookup_insert_ne by done. eauto.
  - intros d S. destruct (decide (dir name = d)) as [<-|Hd].
    + rewrite lookup_insert. intros [= <-]. set_solver.
    + rewrite lookup_insert_ne by done. apply inv_bucket0.
Qed.

(* a watch is unlisted and the kernel forgets its descriptor and its registration (whether or not there was one) *)
Lemma unwatch_inv s name fd w k' : KqInv s →
  tb_byPath (T s) name = Some (fd, w) →
  k_led k' = delete fd (k_led (K s)) → k_regs k' = delete fd (k_regs (K s)) → k_next k' = k_next (K s) →
  KqInv (set_T (λ _, (tb_remove (T s) fd name).1) (set_K (λ _, k') s)).
Proof.
  intros I Hb Hkl Hkr Hkn. destruct (byPath_some _ _ _ _ I Hb) as (Hp & Hw & Hn & Hz).
  destruct I. constructor; simpl; rewrite ?Hkl, ?Hkr, ?Hkn; auto.
  - intros fd'. destruct (decide (fd = fd')) as [<-|Hd]; [rewrite !lookup_delete; split; intros [? ?]; discriminate|rewrite !lookup_delete_ne by done; auto].
  - intros G fd'. destruct (decide (fd = fd')) as [<-|Hd]; [rewrite !lookup_delete; split; intros [? ?]; discriminate|rewrite !lookup_delete_ne by done; auto].
  - intros fd' w'. destruct (decide (fd = fd')) as [<-|Hd]; [rewrite lookup_delete; discriminate|].
    rewrite lookup_delete_ne by done. intros Hw'. rewrite lookup_delete_ne; [auto|].
    intros E. pose proof (inv_wd_path0 _ _ Hw') as Hp'. rewrite <- E, Hp in Hp'. congruence.
  - intros q fd' Hq Hz'. destruct (decide (name = q)) as [<-|Hd]; [rewrite lookup_delete in Hq; discriminate|].
    rewrite lookup_delete_ne in Hq by done. destruct (inv_path_wd0 _ _ Hq Hz') as (w' & Hw' & Hn').
    assert (fd ≠ fd') by (intros <-; rewrite Hw in Hw'; injection Hw' as <-; congruence).
    rewrite lookup_delete_ne by done. eauto.
  - destruct (decide (fd = 0)) as [->|Hd]; [apply lookup_delete|rewrite lookup_delete_ne by done; auto].
  - intros fd' [x Hx]. apply inv_next0. destruct (decide (fd = fd')) as [<-|Hd]; [rewrite lookup_delete in Hx; discriminate|rewrite lookup_delete_ne in Hx by done; eauto].
  - (* byDir *)
    assert (Hbucket : ∃ S, t_bydir (T s) !! dir name = Some S ∧ fd ∈ S) by (apply inv_bydir0; exists w; rewrite Hn; auto).
    destruct Hbucket as (S & HS & HinS). rewrite HS.
    intros d fd'. split.
    + intros (S' & HS' & Hin'). destruct (decide (S ∖ {[fd]} = ∅)) as [Hem|Hne].
      * destruct (decide (dir name = d)) as [<-|Hd]; [rewrite lookup_delete in HS'; discriminate|].
        rewrite lookup_delete_ne in HS' by done.
        assert (∃ S0, t_bydir (T s) !! d = Some S0 ∧ fd' ∈ S0) as Hold by eauto. apply inv_bydir0 in Hold as (w' & Hw' & Hd').
        assert (fd ≠ fd') by (intros <-; rewrite Hw in Hw'; injection Hw' as <-; congruence).
        rewrite lookup_delete_ne by done. eauto.
      * destruct (decide (dir name = d)) as [<-|Hd].
        -- rewrite lookup_insert in HS'. injection HS' as <-. assert (fd ≠ fd') by set_solver.
           assert (∃ S0, t_bydir (T s) !! dir name = Some S0 ∧ fd' ∈ S0) as Hold by (exists S; split; [done|set_solver]).
           apply inv_bydir0 in Hold as (w' & Hw' & Hd'). rewrite lookup_delete_ne by done. eauto.
        -- rewrite lookup_insert_ne in HS' by done.
           assert (∃ S0, t_bydir (T s) !! d = Some S0 ∧ fd' ∈ S0) as Hold by eauto. apply inv_bydir0 in Hold as (w' & Hw' & Hd').
           assert (fd ≠ fd') by (intros <-; rewrite Hw in Hw'; injection Hw' as <-; congruence).
           rewrite lookup_delete_ne by done. eauto.
    + intros (w' & Hw' & Hd'). destruct (decide (fd = fd')) as [<-|Hdf]; [rewrite lookup_delete in Hw'; discriminate|].
      rewrite lookup_delete_ne in Hw' by done.
      assert (∃ S0, t_bydir (T s) !! d = Some S0 ∧ fd' ∈ S0) as (S0 & HS0 & Hin0) by (apply inv_bydir0; eauto).
      destruct (decide (S ∖ {[fd]} = ∅)) as [Hem|Hne].
      * destruct (decide (dir name = d)) as [<-|Hd]; [rewrite HS in HS0; injection HS0 as <-; set_solver|].
        rewrite lookup_delete_ne by done. eauto.
      * destruct (decide (dir name = d)) as [<-|Hd].
        -- rewrite HS in HS0. injection HS0 as <-. rewrite lookup_insert. eexists; split; [reflexivity|set_solver].
        -- rewrite lookup_insert_ne by done. eauto.
  - assert (Hbucket : ∃ S, t_bydir (T s) !! dir name = Some S ∧ fd ∈ S) by (apply inv_bydir0; exists w; rewrite Hn; auto).
    destruct Hbucket as (S & HS & HinS). rewrite HS. intros d S'.
    destruct (decide (S ∖ {[fd]} = ∅)) as [Hem|Hne].
    + destruct (decide (dir name = d)) as [<-|Hd]; [rewrite lookup_delete; discriminate|rewrite lookup_delete_ne by done; apply inv_bucket0].
    + destruct (decide (dir name = d)) as [<-|Hd]; [rewrite lookup_insert; intros [= <-]; done|rewrite lookup_insert_ne by done; apply inv_bucket0].
Qed.

Lemma prim_unwatch s name fd w k1 : KqInv s →
  tb_byPath (T s) name = Some (fd, w) → sys_evdelete (K s) fd = Some k1 →
  KqInv (set_T (λ _, (tb_remove (T s) fd name).1) (set_K (λ _, sys_close k1 fd) s)).
Proof.
  intros I Hb He.
  unfold sys_evdelete in He. destruct (k_regs (K s) !! fd) eqn:Er; [|discriminate]. injection He as <-.
  apply (unwatch_inv s name fd w _ I Hb); simpl; [reflexivity|apply delete_idemp|reflexivity].
Qed.

(* the same when EV_DELETE failed: nothing about the registration is needed *)
Lemma prim_unlist s name fd w : KqInv s →
  tb_byPath (T s) name = Some (fd, w) →
  KqInv (set_T (λ _, (tb_remove (T s) fd name).1) (set_K (λ k, sys_close k fd) s)).
Proof. intros I Hb. apply (unwatch_inv s name fd w _ I Hb); reflexivity. Qed.

Theorem prim_inv U s s' : KqInv s → prim U s s' → KqInv s'.
Proof.
  intros I H. destruct H.
  - apply prim_seen, I.
  - apply prim_link; assumption.
  - apply prim_user, I.
  - eapply prim_out; eauto.
  - eapply prim_dflags; eauto.
  - eapply prim_watch; eauto.
  - eapply prim_rereg; eauto.
  - apply prim_regfail; assumption.
  - eapply prim_unwatch; eauto.
  - eapply prim_unlist; eauto.
  - apply prim_kern; assumption.
  - apply prim_exit, I.
Qed.

Lemma steps_inv U s s' : steps U s s' → KqInv s → KqInv s'.
Proof. apply steps_ind_inv. intros; eapply prim_inv; eauto. Qed.

Lemma kq_inv_init : KqInv st_init.
Proof.
  constructor; simpl; try done.
  - intros fd. split; intros [x Hx]; rewrite lookup_empty in Hx; discriminate.
  - intros _ fd. split; intros [x Hx]; rewrite lookup_empty in Hx; discriminate.
  - intros fd [x Hx]. rewrite lookup_empty in Hx. discriminate.
  - intros d fd. split; [intros (S & HS & _); rewrite lookup_empty in HS; discriminate|intros (w & Hw & _); rewrite lookup_empty in Hw; discriminate].
Qed.

(* the invariant is preserved by every history step, whatever the filesystem contains and whichever repairs are switched on *)
Theorem kq_inv_step c s x : KqInv s → KqInv (do_step c s x).1.
Proof. apply (steps_inv (λ _, True)), do_step_steps. auto. Qed.

Theorem kq_inv_run c h : KqInv (run c h st_init).
Proof. eapply (steps_inv (λ _, True)); [apply run_steps; auto|apply kq_inv_init]. Qed.

(* the same for the single record handler and the API functions (arbitrary records, not only those the simulated kernel raises) *)
Theorem kq_inv_handle c s r : KqInv s → KqInv (handle c s r).
Proof. apply (steps_inv (λ _, True)), handle_steps. Qed.

(* ------------------------------------------------------------------ C17: descriptors are closed again *)

(* a closed descriptor stays closed: numbers are handed out upwards only *)
Definition fd_dead (fd : N) (s : st) : Prop := k_led (K s) !! fd = None ∧ fd < k_next (K s).

Lemma prim_dead U fd s s' : fd_dead fd s → prim U s s' → fd_dead fd s'.
Proof.
  intros [Hl Hn] H. destruct H; unfold fd_dead in *; simpl; auto.
  - rewrite H0, Hl. auto.
  - match goal with Ho : sys_open _ _ = _, Hr : sys_register _ _ _ = _ |- _ =>
      unfold sys_open in Ho; destruct (v_open (k_fs (K s)) name); [discriminate|]; injection Ho as <- <-;
      unfold sys_register in Hr; simpl in Hr; rewrite lookup_insert in Hr; injection Hr as <- end. simpl.
    split; [rewrite lookup_insert_ne by lia; exact Hl|lia].
  - unfold sys_register in H. destruct (k_led (K s) !! fd0); [|discriminate]. injection H as <-. simpl. auto.
  - split; [|exact Hn]. destruct (decide (fd0 = fd)) as [->|Hd]; [apply lookup_delete|rewrite lookup_delete_ne by done; exact Hl].
  - unfold sys_evdelete in H0. destruct (k_regs (K s) !! fd0); [|discriminate]. injection H0 as <-. simpl.
    split; [|exact Hn]. destruct (decide (fd0 = fd)) as [->|Hd]; [apply lookup_delete|rewrite lookup_delete_ne by done; exact Hl].
  - split; [|exact Hn]. destruct (decide (fd0 = fd)) as [->|Hd]; [apply lookup_delete|rewrite lookup_delete_ne by done; exact Hl].
  - rewrite H, H1. auto.
Qed.

Lemma steps_dead U fd s s' : steps U s s' → fd_dead fd s → fd_dead fd s'.
Proof. apply steps_ind_inv. intros; eapply prim_dead; eauto. Qed.

(* one unfolding of remove_core on a watched name closes that watch's descriptor *)
Lemma remove_core_closes fuel s name uw fd w :
  KqInv s → gone s = false → tb_byPath (T s) (clean name) = Some (fd, w) →
  fd_dead fd (remove_core (S fuel) s name uw).1 ∧ (remove_core (S fuel) s name uw).2 = None.
Proof.
  intros I G Hb. destruct (byPath_some _ _ _ _ I Hb) as (Hp & Hw & Hn & Hz).
  assert (Hr : is_Some (k_regs (K s) !! fd)) by (apply (inv_regs _ I G); eauto).
  assert (Hlt : fd < k_next (K s)) by (apply (inv_next _ I), (inv_led _ I); eauto).
  cbn [remove_core]. rewrite Hb.
  unfold evdelete_err, sys_evdelete. destruct Hr as [x Hx]. rewrite Hx.
  destruct (tb_remove (T s) fd (clean name)) as [t1 isd] eqn:Et.
  set (s1 := set_T (λ _ : tables, t1) (set_K (λ _ : kernel, sys_close (k_set_pend (drop_pend fd) (k_set_regs (delete fd) (K s))) fd) s)).
  assert (Hd : fd_dead fd s1) by (split; simpl; [apply lookup_delete|exact Hlt]).
  destruct (uw && isd); cbn [fst snd]; [|auto]. split; [|reflexivity].
  revert Hd. generalize s1. induction (tb_watchesInDir t1 (clean name)) as [|ch r IHr]; intros s0 Hd; [exact Hd|].
  cbn [fold_left]. apply IHr. eapply (steps_dead (λ _, True)); [apply remove_core_steps|exact Hd].
Qed.

(* … and it does so whether or not EV_DELETE succeeds (no premise on [gone]): the early return on the EV_DELETE error
   is gone from the code, only the result differs *)
Lemma remove_core_closes_any fuel s name uw fd w :
  KqInv s → tb_byPath (T s) (clean name) = Some (fd, w) → fd_dead fd (remove_core (S fuel) s name uw).1.
Proof.
  intros I Hb. destruct (byPath_some _ _ _ _ I Hb) as (Hp & Hw & Hn & Hz).
  assert (Hlt : fd < k_next (K s)) by (apply (inv_next _ I), (inv_led _ I); eauto).
  cbn [remove_core]. rewrite Hb.
  destruct (evdelete_err (K s) fd) as [k1 res] eqn:Ee.
  assert (Hk : k_next k1 = k_next (K s)).
  { unfold evdelete_err, sys_evdelete in Ee. destruct (k_regs (K s) !! fd); injection Ee as <- _; reflexivity. }
  destruct (tb_remove (T s) fd (clean name)) as [t1 isd] eqn:Et.
  set (s1 := set_T (λ _ : tables, t1) (set_K (λ _ : kernel, sys_close k1 fd) s)).
  assert (Hd : fd_dead fd s1) by (split; simpl; [apply lookup_delete|rewrite Hk; exact Hlt]).
  destruct (uw && isd); cbn [fst]; [|exact Hd].
  revert Hd. generalize s1. induction (tb_watchesInDir t1 (clean name)) as [|ch r IHr]; intros s0 Hd; [exact Hd|].
  cbn [fold_left]. apply IHr. eapply (steps_dead (λ _, True)); [apply remove_core_steps|exact Hd].
Qed.

(* newEvent: NOTE_DELETE gives Remove, NOTE_RENAME gives Rename; a watch without link name reports its own name *)
Lemma newEvent_ends name mask :
  has mask NOTE_DELETE = true ∨ has mask NOTE_RENAME = true →
  let ev := newEvent name "" mask in e_name ev = name ∧ (has (e_op ev) Rename || has (e_op ev) Remove = true).
Proof.
  intros H. unfold newEvent. simpl. split; [reflexivity|].
  destruct (has mask NOTE_DELETE), (has mask NOTE_WRITE), (has mask NOTE_RENAME), (has mask NOTE_ATTRIB); destruct H; try discriminate; vm_compute; reflexivity.
Qed.

(* Remove of a watched path *)
Theorem remove_closes_fd c s name fd w :
  KqInv s → closed s = false → gone s = false → tb_byPath (T s) (clean name) = Some (fd, w) →
  k_led (K (api_remove c s name).1) !! fd = None ∧ (api_remove c s name).2 = None.
Proof.
  intros I C G Hb. unfold api_remove. rewrite C. unfold rm_fuel.
  destruct (remove_core_closes (size (t_wd (T s))) s name true fd w I G Hb) as [[Hd _] He]. auto.
Qed.

(* deletion or rename of a watched path, handled by the reader: the watch's descriptor is closed.
   Hypotheses [w_link w = ""] and [clean (w_name w) = w_name w] are necessary: see watch_end_closes_fd_refuted. *)
Theorem watch_end_closes_fd c s fd w mask :
  KqInv s → gone s = false → negb (fx_close c) && closed s = false →
  t_wd (T s) !! fd = Some w → w_link w = "" → clean (w_name w) = w_name w →
  has mask NOTE_DELETE = true ∨ has mask NOTE_RENAME = true →
  k_led (K (handle c s (fd, mask))) !! fd = None.
Proof.
  intros I G C Hw Hl Hc Hm.
  assert (Hz : fd ≠ 0) by (intros ->; rewrite (inv_zero _ I) in Hw; discriminate).
  assert (Hb : tb_byPath (T s) (clean (w_name w)) = Some (fd, w)).
  { rewrite Hc. unfold tb_byPath. rewrite (inv_wd_path _ I _ _ Hw). simpl. rewrite Hw. reflexivity. }
  unfold handle. destruct (N.eqb_neq fd 0) as [_ Hne]. rewrite (Hne Hz).
  unfold tb_byWd. rewrite Hw. cbn [default from_option id]. rewrite Hl.
  destruct (newEvent_ends (w_name w) mask Hm) as [Hname Hop]. cbv zeta in Hname, Hop.
  set (ev := newEvent (w_name w) "" mask) in *. rewrite Hop, Hname.
  unfold remove. rewrite C. unfold rm_fuel.
  destruct (remove_core_closes (size (t_wd (T s))) s (w_name w) false fd w I G Hb) as [Hd _].
  set (s0 := (remove_core (S (size (t_wd (T s)))) s (w_name w) false).1) in *.
  assert (Hd1 : fd_dead fd (set_T (λ t : tables, tb_markSeen t (w_name w) false) s0)) by exact Hd.
  set (s1 := set_T (λ t : tables, tb_markSeen t (w_name w) false) s0) in *.
  assert (Htail : ∀ s2, steps (λ _, True) s1 s2 → k_led (K s2) !! fd = None).
  { intros s2 Hs. exact (proj1 (steps_dead _ fd _ _ Hs Hd1)). }
  apply Htail.
  destruct (w_isdir w && has (e_op ev) Write && negb (has (e_op ev) Remove)).
  - eapply steps_trans; [apply dirChange_steps|apply after_remove_steps].
  - pose proof (sendEvent_steps (λ _, True) s1 ev) as H2. destruct (sendEvent s1 ev) as [s2 sent]. simpl in H2.
    eapply steps_trans; [exact H2|]. destruct sent; [apply after_remove_steps|apply reader_exit_steps].
Qed.

(* ------------------------------------------------------------------ C17: WatchList shows only what the user added *)

Lemma in_ins_str x y l : In x (ins_str y l) → x = y ∨ In x l.
Proof.
  induction l as [|z r IH]; simpl.
  - intros [->|[]]. auto.
  - destruct (String.leb y z); simpl.
    + intros [->|[->|H]]; auto.
    + intros [->|H]; [auto|]. destruct (IH H); auto.
Qed.
Lemma in_sort_str x l : In x (sort_str l) → In x l.
Proof. induction l as [|y r IH]; simpl; [tauto|]. intros H. apply in_ins_str in H as [->|H]; [auto|right; auto]. Qed.

Lemma prim_user_only (U : string → Prop) s s' : (∀ q, q ∈ t_user (T s) → U q) → prim U s s' → ∀ q, q ∈ t_user (T s') → U q.
Proof.
  intros HU H q. destruct H; simpl; auto.
  - intros Hq. apply elem_of_union in Hq as [Hq|Hq]; [apply elem_of_singleton in Hq as ->; assumption|auto].
  - rewrite H. auto.
  - unfold tb_updateDirFlags in H0. destruct (t_path (T s) !! p); [|discriminate]. injection H0 as <-. simpl. auto.
  - intros Hq. apply HU. set_solver.
  - intros Hq. apply HU. set_solver.
Qed.

Lemma steps_user_only (U : string → Prop) s s' : steps U s s' → (∀ q, q ∈ t_user (T s) → U q) → ∀ q, q ∈ t_user (T s') → U q.
Proof. intros H. induction H; [auto|]. intros HU. apply IHrtc. eapply prim_user_only; eauto. Qed.

(* every path WatchList returns is the argument of an earlier Add, as the user spelled it (cleaned once addUserWatch is repaired);
   in particular never one of the per-entry watches created internally, whatever the filesystem contained *)
Theorem watchlist_user_only c h q :
  In q (api_list (run c h st_init)) → ∃ p, In (SAdd p) h ∧ q = user_name c p.
Proof.
  intros Hq. unfold api_list in Hq. destruct (closed (run c h st_init)); [destruct Hq|].
  unfold tb_listPaths in Hq. apply in_sort_str in Hq. apply elem_of_list_In, elem_of_elements in Hq.
  refine (steps_user_only (λ q, ∃ p, In (SAdd p) h ∧ q = user_name c p) st_init _ _ _ q Hq).
  - apply run_steps. intros p Hp. eauto.
  - simpl. intros q0 H0. set_solver.
Qed.

(* ------------------------------------------------------------------ C17: nothing watched, nothing held *)

(* what the invariant gives once the last watch is gone: no descriptor, no registration, no byDir bucket, and path holds
   at most link entries (descriptor 0).  seen / byUser / path-link leftovers are NOT excluded: see all_removed_empty_refuted *)
Theorem all_removed_empty_partial s :
  KqInv s → t_wd (T s) = ∅ →
  k_led (K s) = ∅ ∧ (gone s = false → k_regs (K s) = ∅) ∧ t_bydir (T s) = ∅ ∧ (∀ p fd, t_path (T s) !! p = Some fd → fd = 0).
Proof.
  intros I E. repeat split.
  - apply map_empty. intros fd. destruct (k_led (K s) !! fd) eqn:El; [|done].
    assert (is_Some (t_wd (T s) !! fd)) as [w Hw] by (apply (inv_led _ I); eauto). rewrite E, lookup_empty in Hw. discriminate.
  - intros G. apply map_empty. intros fd. destruct (k_regs (K s) !! fd) eqn:El; [|done].
    assert (is_Some (t_wd (T s) !! fd)) as [w Hw] by (apply (inv_regs _ I G); eauto). rewrite E, lookup_empty in Hw. discriminate.
  - apply map_empty. intros d. destruct (t_bydir (T s) !! d) as [S|] eqn:Eb; [|done].
    pose proof (inv_bucket _ I _ _ Eb) as Hne. apply set_choose_L in Hne as [fd Hfd].
    assert (∃ w, t_wd (T s) !! fd = Some w ∧ dir (w_name w) = d) as (w & Hw & _) by (apply (inv_bydir _ I); eauto).
    rewrite E, lookup_empty in Hw. discriminate.
  - intros p fd Hp. destruct (decide (fd = 0)) as [|Hz]; [done|].
    destruct (inv_path_wd _ I _ _ Hp Hz) as (w & Hw & _). rewrite E, lookup_empty in Hw. discriminate.
Qed.

(* the ledger always equals dom wd (plus the three infrastructure descriptors kept apart in k_kq/k_pr/k_pw) along every history *)
Theorem ledger_is_dom_wd c h fd :
  is_Some (k_led (K (run c h st_init)) !! fd) ↔ is_Some (t_wd (T (run c h st_init)) !! fd).
Proof. apply (inv_led _ (kq_inv_run c h)). Qed.

(* ------------------------------------------------------------------ C17: Close releases everything (repaired Close, 833aa17) *)

Definition names_clean (s : st) : Prop := ∀ fd w, t_wd (T s) !! fd = Some w → clean (w_name w) = w_name w.

(* every primitive keeps the watch names clean: the only one that files a new watch (p_watch) does so under a cleaned name *)
Lemma prim_names_clean U s s' : names_clean s → prim U s s' → names_clean s'.
Proof.
  intros Hnc H. destruct H; unfold names_clean in *; simpl; auto.
  - match goal with HT : T _ = T _ |- _ => rewrite HT end. exact Hnc.
  - match goal with Hb : is_Some (tb_byPath ?t ?q), Hu : tb_updateDirFlags _ _ _ = Some _ |- _ =>
      destruct Hb as [[f0 w0] Hb]; unfold tb_byPath in Hb; unfold tb_updateDirFlags in Hu;
      destruct (t_path t !! q) as [f1|]; [|discriminate]; simpl in Hb;
      destruct (t_wd t !! f1) as [w1|] eqn:Ew; [|discriminate]; injection Hu as <- end. simpl.
    intros fd w. destruct (decide (f1 = fd)) as [->|Hd].
    + rewrite lookup_insert. intros [= <-]. simpl. exact (Hnc _ _ Ew).
    + rewrite lookup_insert_ne by done. apply Hnc.
  - intros fd0 w. destruct (decide (fd = fd0)) as [->|Hd].
    + rewrite lookup_insert. intros [= <-]. simpl. assumption.
    + rewrite lookup_insert_ne by done. apply Hnc.
  - intros fd0 w0. destruct (decide (fd = fd0)) as [->|Hd]; [rewrite lookup_delete; discriminate|].
    rewrite lookup_delete_ne by done. apply Hnc.
  - intros fd0 w0. destruct (decide (fd = fd0)) as [->|Hd]; [rewrite lookup_delete; discriminate|].
    rewrite lookup_delete_ne by done. apply Hnc.
Qed.

Lemma steps_names_clean U s s' : steps U s s' → names_clean s → names_clean s'.
Proof. apply steps_ind_inv. intros; eapply prim_names_clean; eauto. Qed.

Lemma names_clean_init : names_clean st_init.
Proof. intros fd w Hw. simpl in Hw. rewrite lookup_empty in Hw. discriminate. Qed.

(* names_clean is an invariant: every history step preserves it, whatever the filesystem contains, for every
   configuration (no repair flag is needed: addWatch cleans its argument and the link target itself, and the names of
   directory entries reach the tables through addWatch only) *)
Theorem names_clean_step c s x : names_clean s → names_clean (do_step c s x).1.
Proof. intros Hnc. eapply (steps_names_clean (λ _, True)); [apply do_step_steps; auto|exact Hnc]. Qed.

Theorem names_clean_run c h : names_clean (run c h st_init).
Proof. eapply (steps_names_clean (λ _, True)); [apply run_steps; auto|apply names_clean_init]. Qed.

Theorem names_clean_handle c s r : names_clean s → names_clean (handle c s r).
Proof. apply (steps_names_clean (λ _, True)), handle_steps. Qed.

(* the name under which a descriptor is filed never changes while it lives *)
Definition fd_named (fd : N) (nm : string) (s : st) : Prop :=
  fd < k_next (K s) ∧ ∀ w, t_wd (T s) !! fd = Some w → w_name w = nm.


Lemma prim_named U fd nm s s' : KqInv s → fd_named fd nm s → prim U s s' → fd_named fd nm s'.
Proof.
  intros I [Hn Hw] H. destruct H; unfold fd_named in *; simpl; auto.
  - match goal with HT : T _ = T _, HK : K _ = K _ |- _ => rewrite HT, HK end. auto.
  - match goal with Hb : is_Some (tb_byPath _ _) |- _ => destruct Hb as [[f0 w0] Hb]; destruct (byPath_some _ _ _ _ I Hb) as (Hp & Hw0 & Hn0 & Hz) end.
    match goal with Hu : tb_updateDirFlags _ _ _ = Some _ |- _ => unfold tb_updateDirFlags in Hu; rewrite Hp in Hu; injection Hu as <- end. simpl.
    split; [exact Hn|]. intros w. destruct (decide (f0 = fd)) as [->|Hd].
    + rewrite lookup_insert. intros [= <-]. simpl. rewrite Hw0. simpl. auto.
    + rewrite lookup_insert_ne by done. auto.
  - match goal with Ho : sys_open _ _ = _, Hr : sys_register _ _ _ = _ |- _ =>
      unfold sys_open in Ho; destruct (v_open (k_fs (K s)) name); [discriminate|]; injection Ho as <- <-;
      unfold sys_register in Hr; simpl in Hr; rewrite lookup_insert in Hr; injection Hr as <- end. simpl.
    split; [lia|]. intros w. rewrite lookup_insert_ne by lia. auto.
  - match goal with Hr : sys_register _ _ _ = _ |- _ => unfold sys_register in Hr; destruct (k_led (K s) !! fd0); [|discriminate]; injection Hr as <- end. simpl. auto.
  - match goal with He : sys_evdelete _ _ = _ |- _ => unfold sys_evdelete in He; destruct (k_regs (K s) !! fd0); [|discriminate]; injection He as <- end. simpl.
    split; [exact Hn|]. intros w0. destruct (decide (fd0 = fd)) as [->|Hd]; [rewrite lookup_delete; discriminate|rewrite lookup_delete_ne by done; auto].
  - split; [exact Hn|]. intros w0. destruct (decide (fd0 = fd)) as [->|Hd]; [rewrite lookup_delete; discriminate|rewrite lookup_delete_ne by done; auto].
  - match goal with Hx : k_next _ = k_next _ |- _ => rewrite Hx end. auto.
Qed.

Lemma steps_named U fd nm s s' : steps U s s' → KqInv s → fd_named fd nm s → fd_named fd nm s'.
Proof.
  intros H. induction H as [|s1 s2 s3 Hp Hr IH]; [auto|]. intros I Hq.
  apply IH; [eapply prim_inv; eauto|eapply prim_named; eauto].
Qed.

(* once the watcher is closed no descriptor is opened any more *)
Lemma prim_closed U s s' : prim U s s' → closed s = true → closed s' = true ∧ k_next (K s') = k_next (K s).
Proof.
  intros H Hc. destruct H; simpl; auto; try congruence.
  - match goal with HK : K _ = K _ |- _ => rewrite HK end. auto.
  - match goal with Hr : sys_register _ _ _ = _ |- _ => unfold sys_register in Hr; destruct (k_led (K s) !! fd); [|discriminate]; injection Hr as <- end. auto.
  - match goal with He : sys_evdelete _ _ = _ |- _ => unfold sys_evdelete in He; destruct (k_regs (K s) !! fd); [|discriminate]; injection He as <- end. auto.
Qed.

Lemma steps_closed U s s' : steps U s s' → closed s = true → closed s' = true ∧ k_next (K s') = k_next (K s).
Proof.
  intros H. induction H as [|x y z Hp _ IH]; [auto|]. intros Hc.
  destruct (prim_closed _ _ _ Hp Hc) as [A B]. destruct (IH A) as [C D]. split; [exact C|congruence].
Qed.

Lemma remove_core_gone fuel : ∀ s name uw, gone (remove_core fuel s name uw).1 = gone s.
Proof.
  induction fuel as [|fuel IH]; intros s name uw; [reflexivity|]. cbn [remove_core].
  destruct (tb_byPath (T s) (clean name)) as [[fd w]|]; [|reflexivity].
  destruct (evdelete_err (K s) fd) as [k1 res].
  destruct (tb_remove (T s) fd (clean name)) as [t1 isd].
  destruct (uw && isd); [|reflexivity]. cbn [fst].
  set (s1 := set_T (λ _ : tables, t1) (set_K (λ _ : kernel, sys_close k1 fd) s)).
  change (gone s) with (gone s1). generalize s1.
  induction (tb_watchesInDir t1 (clean name)) as [|ch r IHr]; intros s0; [reflexivity|].
  cbn [fold_left]. rewrite IHr. apply IH.
Qed.

Lemma fold_remove_gone l : ∀ s, gone (fold_left (λ s p, (remove_core (rm_fuel s) s p true).1) l s) = gone s.
Proof. induction l as [|p r IH]; intros s; cbn [fold_left]; [reflexivity|]. rewrite IH. apply remove_core_gone. Qed.

Lemma in_ins_str_rev x y l : x = y ∨ In x l → In x (ins_str y l).
Proof.
  induction l as [|z r IH]; simpl.
  - intros [->|[]]. auto.
  - destruct (String.leb y z); simpl; intros [->|[->|H]]; auto.
Qed.
Lemma in_sort_str_rev x l : In x l → In x (sort_str l).
Proof. induction l as [|y r IH]; simpl; [tauto|]. intros [->|H]; apply in_ins_str_rev; auto. Qed.

Lemma led_none_of_wd s fd : KqInv s → t_wd (T s) !! fd = None → k_led (K s) !! fd = None.
Proof.
  intros I Hw. destruct (k_led (K s) !! fd) eqn:El; [|done].
  assert (is_Some (t_wd (T s) !! fd)) as [? ?] by (apply (inv_led _ I); eauto). congruence.
Qed.
Lemma wd_none_of_led s fd : KqInv s → k_led (K s) !! fd = None → t_wd (T s) !! fd = None.
Proof.
  intros I Hl. destruct (t_wd (T s) !! fd) eqn:E; [|done].
  assert (is_Some (k_led (K s) !! fd)) as [? ?] by (apply (inv_led _ I); eauto). congruence.
Qed.

(* removing every listed path removes every watch whose name is its own cleaned form *)
Lemma fold_remove_all fd nm : clean nm = nm → ∀ L s,
  KqInv s → gone s = false → fd_named fd nm s → (fd_dead fd s ∨ In nm L) →
  fd_dead fd (fold_left (λ s p, (remove_core (rm_fuel s) s p true).1) L s).
Proof.
  intros Hc. induction L as [|p r IH]; intros s I G Q H; cbn [fold_left].
  - destruct H as [H|[]]. exact H.
  - set (s' := (remove_core (rm_fuel s) s p true).1).
    assert (Hs : steps (λ _, True) s s') by apply remove_core_steps.
    assert (I' : KqInv s') by (eapply steps_inv; eauto).
    assert (G' : gone s' = false) by (subst s'; rewrite remove_core_gone; exact G).
    assert (Q' : fd_named fd nm s') by (eapply steps_named; eauto).
    apply IH; auto.
    destruct H as [H|[->|H]].
    + left. eapply steps_dead; eauto.
    + left. destruct (t_wd (T s) !! fd) as [w|] eqn:Ew.
      * pose proof (proj2 Q _ Ew) as Hn.
        assert (Hb : tb_byPath (T s) (clean nm) = Some (fd, w)).
        { rewrite Hc. unfold tb_byPath. rewrite <- Hn, (inv_wd_path _ I _ _ Ew). simpl. rewrite Ew. reflexivity. }
        unfold s', rm_fuel. exact (proj1 (remove_core_closes _ s nm true fd w I G Hb)).
      * eapply steps_dead; [exact Hs|]. split; [apply led_none_of_wd; auto|exact (proj1 Q)].
    + destruct (t_wd (T s') !! fd) as [w|] eqn:Ew; [right; exact H|].
      left. split; [apply led_none_of_wd; auto|exact (proj1 Q')].
Qed.

(* Close as repaired (833aa17): when it returns no watch, no watch descriptor, no registration and no byDir bucket is
   left — in every state satisfying the invariant, whatever the filesystem, for every configuration with fx_close,
   provided the watch names are clean (before the link targets were cleaned it was not: close_unclean_link_released). *)
Theorem close_empties c s :
  fx_close c = true → KqInv s → closed s = false → gone s = false → names_clean s →
  let s' := api_close c s in
  closed s' = true ∧ t_wd (T s') = ∅ ∧ k_led (K s') = ∅ ∧ k_regs (K s') = ∅ ∧ t_bydir (T s') = ∅ ∧ k_pw (K s') = false.
Proof.
  intros Hf I C G Hnc. unfold api_close. rewrite C, Hf.
  set (s1 := set_closed true s).
  set (s2 := fold_left (λ s p, (remove_core (rm_fuel s) s p true).1) (tb_listPaths (T s1) false) s1).
  assert (I1 : KqInv s1) by (eapply prim_out; eauto).
  assert (Hs : steps (λ _, True) s1 s2) by apply fold_remove_steps.
  assert (I2 : KqInv s2) by (eapply steps_inv; eauto).
  assert (G2 : gone s2 = false) by (subst s2; rewrite fold_remove_gone; exact G).
  destruct (steps_closed _ _ _ Hs eq_refl) as [C2 N2].
  assert (Hwd : t_wd (T s2) = ∅).
  { apply map_empty. intros fd. destruct (t_wd (T s) !! fd) as [w|] eqn:Ew.
    - apply (wd_none_of_led _ _ I2). apply (fold_remove_all fd (w_name w) (Hnc _ _ Ew)); auto.
      + split; [apply (inv_next _ I), (inv_led _ I); eauto|]. simpl. intros w0 Hw0. congruence.
      + right. unfold tb_listPaths. apply in_sort_str_rev. apply elem_of_list_In.
        apply elem_of_list_fmap. exists (w_name w, fd). split; [reflexivity|].
        apply elem_of_map_to_list. exact (inv_wd_path _ I _ _ Ew).
    - destruct (decide (fd < k_next (K s))) as [Hlt|Hge].
      + apply (wd_none_of_led _ _ I2). eapply steps_dead; [exact Hs|]. split; [apply led_none_of_wd; auto|exact Hlt].
      + destruct (t_wd (T s2) !! fd) eqn:E2; [|done]. exfalso.
        assert (fd < k_next (K s2)) by (apply (inv_next _ I2), (inv_led _ I2); eauto).
        rewrite N2 in H. simpl in H. contradiction. }
  destruct (all_removed_empty_partial s2 I2 Hwd) as (Hl & Hr & Hb & _).
  simpl. repeat split; auto.
Qed.

(* … and nothing is opened or registered afterwards, whatever else happens *)
Definition released (s : st) : Prop := closed s = true ∧ k_led (K s) = ∅ ∧ k_regs (K s) = ∅.

Lemma prim_released U s s' : released s → prim U s s' → released s'.
Proof.
  intros (C & L & R) H. destruct H; unfold released; simpl; auto; try congruence.
  - match goal with HK : K _ = K _ |- _ => rewrite HK end. auto.
  - match goal with Hr : sys_register _ _ _ = _ |- _ => unfold sys_register in Hr; rewrite L, lookup_empty in Hr; discriminate end.
  - rewrite L, R, !delete_empty. auto.
  - match goal with He : sys_evdelete _ _ = _ |- _ => unfold sys_evdelete in He; rewrite R, lookup_empty in He; discriminate end.
  - rewrite L, R, !delete_empty. auto.
  - match goal with HA : k_led _ = k_led _, HB : k_regs _ = k_regs _ |- _ => rewrite HA, HB end. auto.
Qed.

Lemma steps_released U s s' : steps U s s' → released s → released s'.
Proof. apply steps_ind_inv. intros; eapply prim_released; eauto. Qed.

(* the state in which the Close of a SClose step is executed: withheld records are handled first *)
Definition before_close (c : cfg) (s : st) : st := settle c (set_held false s).

(* C17 close_releases_all, every configuration with the repaired Close, every history before and after the Close *)
Theorem close_releases_all c h1 h2 :
  fx_close c = true →
  let s0 := before_close c (run c h1 st_init) in
  closed s0 = false → gone s0 = false → names_clean s0 →
  let s := run c (h1 ++ SClose :: h2) st_init in
  k_led (K s) = ∅ ∧ k_regs (K s) = ∅ ∧ closed s = true.
Proof.
  intros Hf s0 C G Hnc s.
  assert (I0 : KqInv s0).
  { eapply (steps_inv (λ _, True)); [|apply (kq_inv_run c h1)].
    eapply steps_trans; [apply steps_one, (p_out _ _ (set_held false (run c h1 st_init))); try reflexivity; auto|apply settle_steps; auto]. }
  destruct (close_empties c s0 Hf I0 C G Hnc) as (C1 & _ & L1 & R1 & _ & W1).
  assert (Hrel : released (api_close c s0)) by (split; [|split]; assumption).
  assert (Hsteps : steps (λ _, True) (api_close c s0) s).
  { subst s. unfold run. rewrite fold_left_app. cbn [fold_left]. fold (run c h1 st_init).
    change (fold_left (λ s x, (do_step c s x).1) h2 (do_step c (run c h1 st_init) SClose).1) with (run c h2 (do_step c (run c h1 st_init) SClose).1).
    eapply steps_trans; [|apply run_steps; auto]. cbn [do_step fst]. apply settle_steps; auto. }
  destruct (steps_released _ _ _ Hsteps Hrel) as (A & B & D). repeat split; auto.
Qed.

(* … in particular in the state in which the Close of a SClose step runs *)
Theorem names_clean_before_close c h : names_clean (before_close c (run c h st_init)).
Proof.
  eapply (steps_names_clean (λ _, True)); [|apply (names_clean_run c h)].
  eapply steps_trans; [apply steps_one, (p_out _ _ (set_held false (run c h st_init))); try reflexivity; auto|apply settle_steps; auto].
Qed.

(* close_empties in the state a history leads to: no premise on the watch names *)
Theorem close_empties_reached c h :
  fx_close c = true →
  let s := before_close c (run c h st_init) in
  closed s = false → gone s = false →
  let s' := api_close c s in
  closed s' = true ∧ t_wd (T s') = ∅ ∧ k_led (K s') = ∅ ∧ k_regs (K s') = ∅ ∧ t_bydir (T s') = ∅ ∧ k_pw (K s') = false.
Proof.
  intros Hf s C G. apply close_empties; auto; [|apply names_clean_before_close].
  eapply (steps_inv (λ _, True)); [|apply (kq_inv_run c h)].
  eapply steps_trans; [apply steps_one, (p_out _ _ (set_held false (run c h st_init))); try reflexivity; auto|apply settle_steps; auto].
Qed.

(* C17 close_releases_all without the premise on the watch names: every configuration with the repaired Close, every
   history before and after the Close.  The two remaining premises say that Close has not been called before. *)
Theorem close_releases_all_unconditional c h1 h2 :
  fx_close c = true →
  let s0 := before_close c (run c h1 st_init) in
  closed s0 = false → gone s0 = false →
  let s := run c (h1 ++ SClose :: h2) st_init in
  k_led (K s) = ∅ ∧ k_regs (K s) = ∅ ∧ closed s = true.
Proof. intros Hf s0 C G. exact (close_releases_all c h1 h2 Hf C G (names_clean_before_close c h1)). Qed.

(* ------------------------------------------------------------------ C17: Remove unlists (repaired addUserWatch, c3f1f06) *)

Lemma prim_not_user (U : string → Prop) q s s' : ¬ U q → q ∉ t_user (T s) → prim U s s' → q ∉ t_user (T s').
Proof.
  intros HU Hq H. destruct H; simpl; auto.
  - intros Hin. apply elem_of_union in Hin as [Hin|Hin]; [apply elem_of_singleton in Hin as ->; contradiction|contradiction].
  - match goal with HT : T _ = T _ |- _ => rewrite HT end. auto.
  - match goal with Hu : tb_updateDirFlags _ _ _ = Some _ |- _ => unfold tb_updateDirFlags in Hu; destruct (t_path (T s) !! p); [|discriminate]; injection Hu as <- end. auto.
  - set_solver.
  - set_solver.
Qed.
Lemma steps_not_user (U : string → Prop) q s s' : ¬ U q → steps U s s' → q ∉ t_user (T s) → q ∉ t_user (T s').
Proof. intros HU H. induction H; [auto|]. intros Hq. apply IHrtc. eapply prim_not_user; eauto. Qed.

(* a successful Remove takes the cleaned path out of the user table, hence out of WatchList: with addUserWatch storing the
   cleaned name (watchlist_user_only: every listed path is [clean p] for an added p) "Add ./d; Remove d" now unlists d *)
Theorem remove_unlists c s name fd w :
  KqInv s → closed s = false → gone s = false → tb_byPath (T s) (clean name) = Some (fd, w) →
  clean name ∉ t_user (T (api_remove c s name).1) ∧ ¬ In (clean name) (api_list (api_remove c s name).1).
Proof.
  intros I C G Hb.
  assert (Hnot : clean name ∉ t_user (T (api_remove c s name).1)).
  { unfold api_remove. rewrite C. unfold rm_fuel. cbn [remove_core]. rewrite Hb.
    destruct (evdelete_err (K s) fd) as [k1 res].
    destruct (tb_remove (T s) fd (clean name)) as [t1 isd] eqn:Et.
    assert (Hq1 : clean name ∉ t_user t1) by (unfold tb_remove in Et; injection Et as <- _; simpl; set_solver).
    set (s1 := set_T (λ _ : tables, t1) (set_K (λ _ : kernel, sys_close k1 fd) s)).
    destruct (true && isd); cbn [fst]; [|exact Hq1].
    assert (Hs : steps (λ _, False) s1 (fold_left (λ s0 child, (remove_core (size (t_wd (T s))) s0 child true).1) (tb_watchesInDir t1 (clean name)) s1)).
    { generalize s1. induction (tb_watchesInDir t1 (clean name)) as [|ch r IHr]; intros s0; cbn [fold_left]; [apply steps_refl|].
      eapply steps_trans; [apply remove_core_steps|apply IHr]. }
    eapply (steps_not_user (λ _, False)); [tauto|exact Hs|exact Hq1]. }
  split; [exact Hnot|]. unfold api_list. destruct (closed (api_remove c s name).1); [unfold not; simpl; intros H; exact H|].
  intros Hin. apply in_sort_str in Hin. apply elem_of_list_In, elem_of_elements in Hin. contradiction.
Qed.

(* ------------------------------------------------------------------ evaluation helpers *)

Definition fails (cl : string) (c : cfg) (h : list step) : bool := clause_fails cl (spec_of_model c h).
Ltac vm := vm_compute; repeat split; try reflexivity; try (let HH := fresh in intros HH; discriminate HH); eauto.

(* ------------------------------------------------------------------ the three repaired defects: positive on cfg_repo,
   and the witnesses that used to refute them still do so on the tree before the fix (seeded-defect tests) *)

Definition w_close : list step := [SFs (OCreate "f"); SAdd "f"; SClose].
Definition w_close_dir : list step := [SFs (OMkdir "d"); SFs (OCreate "d/a"); SFs (OMkdir "d/s"); SAdd "d"; SFs (OCreate "d/b"); SClose; SAdd "d"; SList].
Definition w_unclean : list step := [SFs (OMkdir "d"); SAdd "./d"; SRemove "d"].
Definition w_fifo : list step := [SFs (OMkfifo "p"); SAdd "p"; SRemove "p"].

Example repaired_defects_witnesses :
  (let s := run cfg_repo w_close st_init in gone s = true ∧ ledger_list s = [] ∧ sizes s = (0, 0, 0, 0, 0) ∧ infra s = (false, false, false))
  ∧ (let s := run cfg_repo w_close_dir st_init in gone s = true ∧ ledger_list s = [] ∧ regs_list s = [] ∧ infra s = (false, false, false))
  ∧ spec_of_model cfg_repo w_close = [] ∧ spec_of_model cfg_repo w_close_dir = []
  ∧ spec_of_model cfg_repo w_unclean = [] ∧ api_list (run cfg_repo w_unclean st_init) = []
  ∧ spec_of_model cfg_repo w_fifo = [] ∧ api_list (run cfg_repo [SFs (OMkfifo "p"); SAdd "p"] st_init) = [].
Proof. vm. Qed.

Theorem before_fix_refuted :
  (* fixed: 833aa17 (was key close-leaks-descriptors) *)
  (let s := run cfg_before_fix w_close st_init in gone s = true ∧ ledger_list s = [(1, "f")] ∧ fails "close-releases-all" cfg_before_fix w_close = true)
  (* fixed: c3f1f06 (was key unclean-spelling) *)
  ∧ (api_list (run cfg_before_fix w_unclean st_init) = ["./d"] ∧ fails "removed-not-listed" cfg_before_fix w_unclean = true)
  (* fixed: c3f1f06 (was key fifo-added) *)
  ∧ (api_list (run cfg_before_fix w_fifo st_init) = ["p"] ∧ fails "all-removed-empty" cfg_before_fix w_fifo = true).
Proof. vm. Qed.

(* ------------------------------------------------------------------ refutations that remain on the tree as it is (cfg_repo),
   each tied to its KNOWN_FINDINGS.txt key *)

(* key symlink-added *)
Definition w_link_target : list step := [SFs (OCreate "f"); SFs (OSymlink "f" "l"); SAdd "f"; SAdd "l"; SRemove "l"; SRemove "f"].
Definition w_link_deleted : list step := [SFs (OCreate "f"); SFs (OSymlink "f" "l"); SAdd "l"; SFs (OUnlink "f")].
Definition w_unclean_link_close : list step := [SFs (OCreate "x"); SFs (OSymlink "/T//x" "l"); SAdd "l"; SClose].
(* key watched-dir-renamed *)
Definition w_dir_renamed : list step := [SFs (OMkdir "d"); SFs (OCreate "d/a"); SAdd "d"; SFs (ORename "d" "e")].
(* key fifo-entry *)
Definition w_fifo_entry_left : list step := [SFs (OMkdir "d"); SAdd "d"; SFs (OMkfifo "d/p"); SRemove "d"].
Definition w_fifo_entry : list step := [SFs (OMkdir "d"); SAdd "d"; SFs (OMkfifo "d/p"); SFs (OCreate "d/x")].
Definition w_fifo_pre : list step := [SFs (OMkdir "d"); SFs (OMkfifo "d/p"); SAdd "d"; SFs (OCreate "d/x")].
(* key dangling-symlink-entry *)
Definition w_failed_add : list step := [SFs (OMkdir "d"); SFs (OSymlink "nowhere" "d/z"); SAdd "d"; SFs (OCreate "d/a")].
Definition w_dangling : list step :=
  [SFs (OMkdir "d"); SAdd "d"; SHold; SFs (OSymlink "nowhere" "d/a"); SFs (OCreate "d/b"); SRelease; SFs (OCreate "d/c")].
(* key symlink-entry *)
Definition w_link_entry : list step :=
  [SFs (OMkdir "d"); SFs (OCreate "d/f"); SFs (OSymlink "f" "d/l"); SAdd "d"; SFs (OUnlink "d/l"); SFs (OCreate "d/l")].
Definition w_dir_removed : list step :=
  [SFs (OMkdir "d"); SFs (OCreate "d/f"); SFs (OSymlink "f" "d/l"); SAdd "d"; SFs (OUnlink "d/l"); SFs (OUnlink "d/f"); SFs (ORmdir "d")].
(* key watched-file-overwritten *)
Definition w_overwritten : list step := [SFs (OCreate "a"); SAdd "a"; SFs (OCreate "b"); SFs (ORename "b" "a")].
(* key remove-of-unadded-succeeds *)
Definition w_remove_unadded : list step := [SFs (OMkdir "d"); SAdd "d"; SFs (OCreate "d/x"); SRemove "d/x"].
(* key entry-user-removed *)
Definition w_entry_user_removed : list step := [SFs (OMkdir "d"); SFs (OCreate "d/a"); SAdd "d"; SAdd "d/a"; SRemove "d/a"; SFs (OWrite "d/a")].
(* key rename-then-recreate-in-burst *)
Definition w_burst : list step := [SFs (OMkdir "d"); SFs (OCreate "d/l"); SAdd "d"; SHold; SFs (ORename "d/l" "d/c"); SFs (OCreate "d/l"); SRelease].

(* the witness of the defect repaired by the third fix (absolute link targets are cleaned before they become watch names):
   a watch added through a symlink with an unclean absolute target used to be filed under the raw target, which Close
   (cleaning the key) did not find — the descriptor survived Close.  On the repaired code it is released. *)
Theorem close_unclean_link_released :
  let s := run cfg_repo w_unclean_link_close st_init in
  gone s = true ∧ ledger_list s = [] ∧ fails "close-releases-all" cfg_repo w_unclean_link_close = false.
Proof. vm. Qed.

(* all_removed_empty in full is still false; what can be left over and why (one witness per cause):
   - key symlink-added: the link stays in byUser/WatchList, a path↦0 and a seen entry stay (Remove(link) fails)
   - key watched-dir-renamed: the entries of a renamed directory keep wd/path/byDir/seen entries and descriptors
   - key fifo-entry: seen[""] (set for a FIFO entry) is never cleared
   - key watched-file-overwritten: the file that replaced a watched file is re-watched internally
   - key dangling-symlink-entry: an Add that failed half-way leaves the directory and earlier entries watched *)
Theorem all_removed_empty_refuted :
  (∃ h, let s := run cfg_repo h st_init in api_list s = ["l"] ∧ sizes s = (0, 1, 0, 1, 1) ∧ t_path (T s) !! "l" = Some 0 ∧ fails "remove-of-added-fails" cfg_repo h = true)
  ∧ (∃ h, let s := run cfg_repo h st_init in api_list s = [] ∧ ledger_list s = [(2, "d/a")] ∧ sizes s = (1, 1, 1, 1, 0) ∧ fails "all-removed-empty" cfg_repo h = true)
  ∧ (∃ h, let s := run cfg_repo h st_init in api_list s = [] ∧ ledger_list s = [] ∧ sizes s = (0, 0, 0, 1, 0) ∧ fails "all-removed-empty" cfg_repo h = true)
  ∧ (∃ h, let s := run cfg_repo h st_init in api_list s = [] ∧ ledger_list s = [(2, "a")] ∧ sizes s = (1, 1, 1, 1, 0) ∧ fails "all-removed-empty" cfg_repo h = true)
  ∧ (∃ h, let s := run cfg_repo h st_init in api_list s = [] ∧ ledger_list s = [(1, "d"); (2, "d/a")] ∧ fails "all-removed-empty" cfg_repo h = true).
Proof.
  split; [exists w_link_target; vm|].
  split; [exists w_dir_renamed; vm|].
  split; [exists w_fifo_entry_left; vm|].
  split; [exists w_overwritten; vm|].
  exists w_failed_add. vm.
Qed.

(* watch_end_closes_fd needs its hypotheses.  keys symlink-added, watched-dir-renamed *)
Theorem watch_end_closes_fd_refuted :
  (∃ h, let s := run cfg_repo h st_init in ledger_list s = [(1, "f")] ∧ fails "deleted-file-descriptor-open" cfg_repo h = true)
  ∧ (∃ h, let s := run cfg_repo h st_init in ledger_list s = [(2, "d/a")] ∧ api_list s = [] ∧ fails "all-removed-empty" cfg_repo h = true).
Proof. split; [exists w_link_deleted|exists w_dir_renamed]; vm. Qed.

(* Remove of a path the user never added succeeds.  key remove-of-unadded-succeeds;
   Remove of a user-added entry of a watched directory silences the directory for it.  key entry-user-removed *)
Theorem remove_semantics_refuted :
  (fails "remove-of-unadded-succeeds" cfg_repo w_remove_unadded = true ∧ ledger_list (run cfg_repo w_remove_unadded st_init) = [(1, "d")])
  ∧ (fails "change-missed" cfg_repo w_entry_user_removed = true ∧ api_list (run cfg_repo w_entry_user_removed st_init) = ["d"]).
Proof. vm. Qed.

(* ------------------------------------------------------------------ C18 *)

(* names: an event carries the link name when the watch has one, else the watch's own (cleaned) name *)
Theorem names_user_spelling name link mask :
  e_name (newEvent name link mask) = if String.eqb link "" then name else link.
Proof. reflexivity. Qed.

(* Create is only ever sent for a name that is not marked seen, and a successful internalWatch marks what it returns *)
Theorem create_only_if_unseen s p k :
  tb_seenBefore (T s) p = true →
  (sendCreateIfNew s p k) = (let '(s1, r) := internalWatch aw_entry s p k in
                             match r with RErr e => (s1, Some e) | ROk p' => (set_T (λ t, tb_markSeen t p' true) s1, None) end).
Proof. intros H. unfold sendCreateIfNew. rewrite H. reflexivity. Qed.

Theorem create_marks_returned_name s p k s' :
  sendCreateIfNew s p k = (s', None) → closed s = false →
  ∃ p', p' ∈ t_seen (T s').
Proof.
  unfold sendCreateIfNew, sendEvent. intros H C. rewrite C in H. simpl in H.
  destruct (tb_seenBefore (T s) p); simpl in H.
  - destruct (internalWatch aw_entry s p k) as [s1 [p'|e]]; [|discriminate]. injection H as <-. exists p'. simpl. set_solver.
  - destruct (internalWatch aw_entry _ p k) as [s1 [p'|e]]; [|discriminate]. injection H as <-. exists p'. simpl. set_solver.
Qed.

Definition creates (n : string) (s : st) : nat := length (filter (fun e => String.eqb (e_name e) n && has (e_op e) Create) (evs s)).

(* keys fifo-entry, dangling-symlink-entry *)
Theorem create_once_refuted :
  (∃ h, creates "d/p" (run cfg_repo h st_init) = 2%nat ∧ fails "create-once" cfg_repo h = true)
  ∧ (∃ h, creates "d/a" (run cfg_repo h st_init) = 2%nat ∧ creates "d/b" (run cfg_repo h st_init) = 0%nat
          ∧ fails "create-once" cfg_repo h = true ∧ fails "create-missed" cfg_repo h = true).
Proof. split; [exists w_fifo_entry|exists w_dangling]; vm. Qed.

(* key fifo-entry *)
Theorem preexisting_silent_refuted :
  ∃ h, creates "d/p" (run cfg_repo h st_init) = 1%nat ∧ fails "preexisting-silent" cfg_repo h = true.
Proof. exists w_fifo_pre. vm. Qed.

(* key symlink-entry; key rename-then-recreate-in-burst *)
Theorem recreate_refuted :
  (∃ h, evs (run cfg_repo h st_init) = [] ∧ fails "recreate" cfg_repo h = true ∧ fails "remove-missed" cfg_repo h = true)
  ∧ (∃ h, creates "d/l" (run cfg_repo h st_init) = 0%nat ∧ creates "d/c" (run cfg_repo h st_init) = 1%nat ∧ fails "create-missed" cfg_repo h = true).
Proof. split; [exists w_link_entry|exists w_burst]; vm. Qed.

(* key symlink-entry: removing the symlink entry d/l is not reported when it happens; its Remove arrives only when the TARGET d/f is deleted *)
Theorem dir_removed_refuted :
  ∃ h, rev (evs (run cfg_repo h st_init)) = [ {| e_name := "d/l"; e_op := Remove |}; {| e_name := "d/f"; e_op := Remove |}; {| e_name := "d"; e_op := Remove |} ]
       ∧ fails "remove-missed" cfg_repo h = true.
Proof. exists w_dir_removed. vm. Qed.

(* key dangling-symlink-entry: events under a directory whose Add failed *)
Theorem names_user_spelling_refuted :
  ∃ h, api_list (run cfg_repo h st_init) = [] ∧ fails "names-user-spelling" cfg_repo h = true.
Proof. exists w_failed_add. vm. Qed.

(* where none of the defect ingredients occurs the model meets every clause: bursts, name re-use, overwrite by rename,
   pre-existing entries, unclean spelling of the Add, removal of the directory (a bounded statement, by evaluation) *)
Definition h_plain : list step :=
  [SFs (OMkdir "d"); SFs (OCreate "d/pre"); SAdd "./d//"; SFs (OCreate "d/a"); SFs (OWrite "d/a"); SFs (OChmod "d/a"); SFs (ORename "d/a" "d/b");
   SFs (OUnlink "d/b"); SFs (OCreate "d/b"); SFs (OMkdir "d/s"); SFs (ORmdir "d/s"); SList;
   SHold; SFs (OCreate "d/x"); SFs (OCreate "d/y"); SFs (OCreate "d/z"); SFs (OUnlink "d/y"); SRelease;
   SHold; SFs (OUnlink "d/x"); SFs (OCreate "d/x"); SRelease;
   SFs (OCreate "d/o"); SFs (ORename "d/o" "d/x");
   SFs (OUnlink "d/pre"); SFs (OUnlink "d/b"); SFs (OUnlink "d/x"); SFs (OUnlink "d/z"); SFs (ORmdir "d"); SList].
Example plain_history_meets_spec : spec_of_model cfg_repo h_plain = [] ∧ length (evs (run cfg_repo h_plain st_init)) = 22%nat.
Proof. vm. Qed.

(* ------------------------------------------------------------------ C18, history level: PARTIAL (bounded)
   create_once / preexisting_silent / recreate / dir_removed(entries) / change reporting / names, as the clauses of the
   specification (KqModel section 7) evaluated on the model's own trace, for EVERY history of a finite family.
   Side conditions, as explicit predicates on the history:
     - the steps are drawn from [alphabet] / [alpha_b]: no symlink, no FIFO, no Remove of an entry, no rename of the
       watched directory, no overwrite of a user-watched file (the ingredients of the remaining KNOWN_FINDINGS keys);
     - in a burst, [no_rename_recreate]: no name is created after having been renamed away before the reader runs
       (key rename-then-recreate-in-burst).
   The gap to the full statements: the quantifier is bounded (4 free steps after the prologue; bursts of 3 plus one step);
   for unbounded histories the statement rests on the differential runs and on the state-level lemmas above. *)
Definition prologue : list step := [SFs (OMkdir "d"); SFs (OCreate "d/pre"); SAdd "d"].
Definition alphabet : list step :=
  [SFs (OCreate "d/a"); SFs (OCreate "d/b"); SFs (OWrite "d/a"); SFs (OUnlink "d/a"); SFs (OUnlink "d/pre");
   SFs (ORename "d/a" "d/b"); SFs (ORename "d/b" "d/pre"); SFs (OMkdir "d/s"); SFs (ORmdir "d/s"); SFs (OChmod "d/b")].
Definition alpha_b : list step :=
  [SFs (OCreate "d/a"); SFs (OCreate "d/b"); SFs (OUnlink "d/a"); SFs (OUnlink "d/pre"); SFs (ORename "d/a" "d/b");
   SFs (OMkdir "d/s"); SFs (ORmdir "d/s"); SFs (OWrite "d/pre")].
Fixpoint words (al : list step) (n : nat) : list (list step) :=
  match n with O => [[]] | S n' => flat_map (fun w => map (fun x => x :: w) al) (words al n') end.
Definition c18_clauses : list string :=
  ["create-once"; "preexisting-silent"; "create-missed"; "recreate"; "remove-missed"; "change-missed"; "names-user-spelling"].
Definition c18_ok (h : list step) : bool :=
  forallb (fun v : nat * viol => negb (existsb (String.eqb v.2.1) c18_clauses)) (spec_of_model cfg_repo h).
Fixpoint no_rename_recreate (away : list string) (w : list step) : bool :=
  match w with
  | [] => true
  | SFs (ORename a b) :: r => negb (existsb (String.eqb b) away) && no_rename_recreate (a :: away) r
  | SFs (OCreate p) :: r | SFs (OMkdir p) :: r => negb (existsb (String.eqb p) away) && no_rename_recreate away r
  | _ :: r => no_rename_recreate away r
  end.

Lemma c18_plain_sweep : forallb (fun w => c18_ok (prologue ++ w)) (words alphabet 4) = true.
Proof. vm_compute. reflexivity. Qed.
Theorem c18_clauses_bounded_plain_partial : ∀ w, In w (words alphabet 4) → c18_ok (prologue ++ w) = true.
Proof. intros w Hw. exact (proj1 (forallb_forall _ _) c18_plain_sweep w Hw). Qed.

Definition burst_family : list (list step * step) := flat_map (fun w => map (fun x => (w, x)) alpha_b) (words alpha_b 3).
Lemma c18_burst_sweep :
  forallb (fun wx : list step * step => negb (no_rename_recreate [] wx.1) || c18_ok (prologue ++ SHold :: wx.1 ++ [SRelease; wx.2])) burst_family = true.
Proof. vm_compute. reflexivity. Qed.
Theorem c18_clauses_bounded_burst_partial : ∀ w x,
  In (w, x) burst_family → no_rename_recreate [] w = true → c18_ok (prologue ++ SHold :: w ++ [SRelease; x]) = true.
Proof.
  intros w x Hw Hs. pose proof (proj1 (forallb_forall _ _) c18_burst_sweep (w, x) Hw) as H. simpl in H.
  rewrite Hs in H. exact H.
Qed.
