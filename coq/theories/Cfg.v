(* Cfg.v — lock-set discipline of the skeletons rendered by the translator (CfgLang.v / gen/GenCfg.v).

   1. an executable checker (check_sk / check_entry / discipline_ok): an abstract interpreter that tracks ONE held
      set per program point and verifies, at every act, the discipline properties
        P1  blocking acts (send, receive, select, file read) only with no mutex held,
        P2  table accesses only under MuMain,
        P3  ring accesses only under MuCookies,
        P4  balance: a call leaves the held set unchanged; no double lock, no unlock of a mutex that is not held;
   2. a big-step trace semantics of skeletons (exec and friends).  Executions may be cut at any point (outcome
      OStop), so the relation describes every finite PREFIX of every run, including runs that block or loop for ever;
      errors (double lock, unknown callee, untranslated statement …) are the explicit outcome OError;
   3. the soundness theorem discipline_sound: if the checker accepts an entry point then EVERY execution of it
      satisfies P1–P3 at each observation, never reaches OError, and ends (if it ends) with no mutex held;
   4. purely syntactic shape checks on the program and their conjunction cfg_ok, evaluated on gen_program. *)
From Coq Require Import List String Bool Arith Lia.
From Fsn Require Import CfgLang.
Import ListNotations.
Local Open Scope string_scope.
Local Open Scope list_scope.

(* ------------------------------------------------------------------------------------------------------------ *)
(** * Decidable equalities *)

Definition chan_eqb (a b : chan) : bool :=
  match a, b with
  | ChEvents, ChEvents | ChErrors, ChErrors | ChDone, ChDone | ChDoneResp, ChDoneResp => true
  | ChOther x, ChOther y => String.eqb x y
  | _, _ => false
  end.

Definition mutex_eqb (a b : mutex) : bool :=
  match a, b with
  | MuMain, MuMain | MuCookies, MuCookies => true
  | MuOther x, MuOther y => String.eqb x y
  | _, _ => false
  end.

Lemma chan_eqb_eq a b : chan_eqb a b = true <-> a = b.
Proof.
  destruct a, b; simpl; split; intro H; try reflexivity; try discriminate.
  - apply String.eqb_eq in H. now subst.
  - inversion H. apply String.eqb_refl.
Qed.

Lemma mutex_eqb_eq a b : mutex_eqb a b = true <-> a = b.
Proof.
  destruct a, b; simpl; split; intro H; try reflexivity; try discriminate.
  - apply String.eqb_eq in H. now subst.
  - inversion H. apply String.eqb_refl.
Qed.

Fixpoint list_eqb {A} (eqb : A -> A -> bool) (l1 l2 : list A) : bool :=
  match l1, l2 with
  | [], [] => true
  | x :: l1', y :: l2' => eqb x y && list_eqb eqb l1' l2'
  | _, _ => false
  end.

Lemma list_eqb_eq {A} (eqb : A -> A -> bool) :
  (forall x y, eqb x y = true <-> x = y) -> forall l1 l2, list_eqb eqb l1 l2 = true <-> l1 = l2.
Proof.
  intros He. induction l1 as [|x l1 IH]; destruct l2 as [|y l2]; simpl; split; intro H;
    try reflexivity; try discriminate.
  - apply andb_true_iff in H. destruct H as [H1 H2]. apply He in H1. apply IH in H2. now subst.
  - inversion H; subst. apply andb_true_iff. split; [now apply He | now apply IH].
Qed.

Definition case_eqb (x y : bool * chan) : bool := Bool.eqb (fst x) (fst y) && chan_eqb (snd x) (snd y).

Lemma case_eqb_eq x y : case_eqb x y = true <-> x = y.
Proof.
  destruct x as [b c], y as [b' c']; unfold case_eqb; simpl. rewrite andb_true_iff, Bool.eqb_true_iff, chan_eqb_eq.
  split; [intros [-> ->]; reflexivity | intro H; inversion H; auto].
Qed.

Definition act_eqb (a b : act) : bool :=
  match a, b with
  | ALock m, ALock n | AUnlock m, AUnlock n => mutex_eqb m n
  | ASend c, ASend d | ARecv c, ARecv d | AClose c, AClose d | APoll c, APoll d => chan_eqb c d
  | ASelect cs, ASelect ds => list_eqb case_eqb cs ds
  | ATable w, ATable v => Bool.eqb w v
  | ARing, ARing | AFileRead, AFileRead | AFileClose, AFileClose => true
  | ASyscall s, ASyscall t | AGo s, AGo t | AOther s, AOther t => String.eqb s t
  | _, _ => false
  end.

Lemma act_eqb_eq a b : act_eqb a b = true <-> a = b.
Proof.
  destruct a, b; simpl; try (split; intro H; [discriminate | inversion H]); try (split; reflexivity);
    rewrite ?mutex_eqb_eq, ?chan_eqb_eq, ?String.eqb_eq, ?Bool.eqb_true_iff, ?(list_eqb_eq _ case_eqb_eq);
    (split; intro H; [now subst | now inversion H]).
Qed.

(* ------------------------------------------------------------------------------------------------------------ *)
(** * Held sets *)

Definition held := list mutex.
Definition dstack := list (list sk).          (* deferred blocks of the running function, last registered first *)
Definition obs := (act * held)%type.          (* an executed act together with the mutexes held just before it *)

Definition mem (m : mutex) (h : held) : bool := existsb (mutex_eqb m) h.
Definition remove_mu (m : mutex) (h : held) : held := filter (fun x => negb (mutex_eqb m x)) h.
Definition subset (a b : held) : bool := forallb (fun x => mem x b) a.
Definition seteq (a b : held) : bool := subset a b && subset b a.
Definition sameset (a b : held) : Prop := forall x, In x a <-> In x b.

Lemma mem_In m h : mem m h = true <-> In m h.
Proof.
  unfold mem. rewrite existsb_exists. split.
  - intros [x [Hx He]]. apply mutex_eqb_eq in He. now subst.
  - intro H. exists m. split; [assumption | now apply mutex_eqb_eq].
Qed.

Lemma remove_mu_In m h x : In x (remove_mu m h) <-> In x h /\ x <> m.
Proof.
  unfold remove_mu. rewrite filter_In. split; intros [H1 H2]; split; auto.
  - intro E. subst. rewrite (proj2 (mutex_eqb_eq m m) eq_refl) in H2. discriminate.
  - destruct (mutex_eqb m x) eqn:E; [|reflexivity]. apply mutex_eqb_eq in E. congruence.
Qed.

Lemma seteq_sound a b : seteq a b = true -> sameset a b.
Proof.
  unfold seteq, subset. rewrite andb_true_iff, !forallb_forall. intros [H1 H2] x.
  split; intro H; [apply H1 in H | apply H2 in H]; now apply mem_In.
Qed.

Lemma sameset_refl a : sameset a a.
Proof. intro x. reflexivity. Qed.
Lemma sameset_sym a b : sameset a b -> sameset b a.
Proof. intros H x. symmetry. apply H. Qed.
Lemma sameset_trans a b c : sameset a b -> sameset b c -> sameset a c.
Proof. intros H1 H2 x. rewrite (H1 x). apply H2. Qed.
Lemma sameset_nil a : sameset a [] -> a = [].
Proof. destruct a as [|m a]; [reflexivity|]. intro H. destruct (proj1 (H m) (or_introl eq_refl)). Qed.

Lemma mem_sameset m a b : sameset a b -> mem m a = mem m b.
Proof.
  intro H. destruct (mem m b) eqn:E.
  - apply mem_In. apply H. now apply mem_In.
  - destruct (mem m a) eqn:E'; [|reflexivity]. apply mem_In in E'. apply H in E'. apply mem_In in E'. congruence.
Qed.

(* ------------------------------------------------------------------------------------------------------------ *)
(** * Effect of an act on the held set, and the per-observation discipline *)

(* None = error: locking a mutex that is already held (self-deadlock) or unlocking one that is not held *)
Definition step_held (a : act) (h : held) : option held :=
  match a with
  | ALock m => if mem m h then None else Some (m :: h)
  | AUnlock m => if mem m h then Some (remove_mu m h) else None
  | _ => Some h
  end.

Definition blocking (a : act) : bool :=
  match a with ASend _ | ARecv _ | ASelect _ | AFileRead => true | _ => false end.

Definition is_nil {A} (l : list A) : bool := match l with [] => true | _ => false end.

(* P1–P3, executable *)
Definition act_ok (a : act) (h : held) : bool :=
  (if blocking a then is_nil h else true) &&
  match a with ATable _ => mem MuMain h | ARing => mem MuCookies h | _ => true end.

(* P1–P3, as a property of an observation *)
Definition obs_ok (o : obs) : Prop :=
  let (a, h) := o in
  (blocking a = true -> h = []) /\
  ((exists w, a = ATable w) -> In MuMain h) /\
  (a = ARing -> In MuCookies h).

Lemma act_ok_sound a hc hr : act_ok a hc = true -> sameset hr hc -> obs_ok (a, hr).
Proof.
  unfold act_ok, obs_ok. rewrite andb_true_iff. intros [H1 H2] Hs. repeat split.
  - intro Hb. rewrite Hb in H1. destruct hc; [|discriminate]. now apply sameset_nil.
  - intros [w ->]. apply Hs. now apply mem_In.
  - intros ->. apply Hs. now apply mem_In.
Qed.

Lemma step_held_sameset a hr hc hc' :
  sameset hr hc -> step_held a hc = Some hc' -> exists hr', step_held a hr = Some hr' /\ sameset hr' hc'.
Proof.
  intros Hs. destruct a; simpl; try (intro H; inversion H; subst; eauto; fail).
  - rewrite (mem_sameset m _ _ Hs). destruct (mem m hc); [discriminate|]. intro H; inversion H; subst.
    eexists; split; [reflexivity|]. intro x; simpl. now rewrite (Hs x).
  - rewrite (mem_sameset m _ _ Hs). destruct (mem m hc); [|discriminate]. intro H; inversion H; subst.
    eexists; split; [reflexivity|]. intro x. rewrite !remove_mu_In. now rewrite (Hs x).
Qed.

(* ------------------------------------------------------------------------------------------------------------ *)
(** * Semantics *)

Fixpoint lookup (p : program) (f : string) : option sk :=
  match p with
  | [] => None
  | (g, b) :: p' => if String.eqb f g then Some b else lookup p' f
  end.

(* ONormal: ran to its end.  OBreak / OReturn: left by break / return.  OStop: the observer stopped looking here
   (any prefix of a run is a run).  OError: the run hit something the model gives no meaning to. *)
Inductive outcome := ONormal | OBreak | OReturn | OStop | OError.
Definition halted (o : outcome) : Prop := o = OStop \/ o = OError.

(* exec p s held defers trace held' defers' o: statement s, started with held / defers, produces trace and ends with
   held' / defers' and outcome o.  exec_body runs a function body (or a deferred block, which in Go is a function
   call too) with a defer stack of its own and then the deferred blocks, last registered first. *)
Inductive exec (p : program) : sk -> held -> dstack -> list obs -> held -> dstack -> outcome -> Prop :=
| E_Act a h ds h' :
    step_held a h = Some h' -> exec p (SAct a) h ds [(a, h)] h' ds ONormal
| E_ActErr a h ds :
    step_held a h = None -> exec p (SAct a) h ds [] h ds OError
| E_Defer b h ds :
    exec p (SDefer b) h ds [] h (b :: ds) ONormal
| E_Call f body h ds tr h' :
    lookup p f = Some body -> exec_body p body h tr h' ONormal -> exec p (SCall f) h ds tr h' ds ONormal
| E_CallHalt f body h ds tr h' o :
    lookup p f = Some body -> exec_body p body h tr h' o -> halted o -> exec p (SCall f) h ds tr h' ds o
| E_CallUnknown f h ds :
    lookup p f = None -> exec p (SCall f) h ds [] h ds OError
| E_Seq l h ds tr h' ds' o :
    exec_seq p l h ds tr h' ds' o -> exec p (SSeq l) h ds tr h' ds' o
| E_IfNil h ds :
    exec p (SIf []) h ds [] h ds ONormal
| E_If bs b h ds tr h' ds' o :
    In b bs -> exec p b h ds tr h' ds' o -> exec p (SIf bs) h ds tr h' ds' o
| E_LoopDone b h ds :
    exec p (SLoop b) h ds [] h ds ONormal
| E_LoopIter b h ds tr1 h1 ds1 o1 tr2 h2 ds2 o2 :
    exec p b h ds tr1 h1 ds1 o1 -> o1 = ONormal \/ o1 = OBreak ->
    exec p (SLoop b) h1 ds1 tr2 h2 ds2 o2 ->
    exec p (SLoop b) h ds (tr1 ++ tr2) h2 ds2 o2
| E_LoopExit b h ds tr h' ds' o :
    exec p b h ds tr h' ds' o -> o = OReturn \/ halted o -> exec p (SLoop b) h ds tr h' ds' o
| E_Return h ds :
    exec p SReturn h ds [] h ds OReturn
| E_Break h ds :
    exec p SBreak h ds [] h ds OBreak
| E_Unrecognised src h ds :
    exec p (SUnrecognised src) h ds [] h ds OError
| E_Stop s h ds :
    exec p s h ds [] h ds OStop
with exec_seq (p : program) : list sk -> held -> dstack -> list obs -> held -> dstack -> outcome -> Prop :=
| ES_Nil h ds :
    exec_seq p [] h ds [] h ds ONormal
| ES_Cons s l h ds tr1 h1 ds1 tr2 h2 ds2 o :
    exec p s h ds tr1 h1 ds1 ONormal -> exec_seq p l h1 ds1 tr2 h2 ds2 o ->
    exec_seq p (s :: l) h ds (tr1 ++ tr2) h2 ds2 o
| ES_Abort s l h ds tr h' ds' o :
    exec p s h ds tr h' ds' o -> o <> ONormal -> exec_seq p (s :: l) h ds tr h' ds' o
with exec_body (p : program) : sk -> held -> list obs -> held -> outcome -> Prop :=
| EB_Done s h tr1 h1 ds1 o tr2 h2 o2 :
    exec p s h [] tr1 h1 ds1 o -> o = ONormal \/ o = OReturn ->
    exec_defers p ds1 h1 tr2 h2 o2 ->
    exec_body p s h (tr1 ++ tr2) h2 o2
| EB_Halt s h tr h1 ds1 o :
    exec p s h [] tr h1 ds1 o -> halted o -> exec_body p s h tr h1 o
| EB_Break s h tr h1 ds1 :                           (* break outside of a loop *)
    exec p s h [] tr h1 ds1 OBreak -> exec_body p s h tr h1 OError
with exec_defers (p : program) : dstack -> held -> list obs -> held -> outcome -> Prop :=
| ED_Nil h :
    exec_defers p [] h [] h ONormal
| ED_Cons b ds h tr1 h1 tr2 h2 o :
    exec_body p (SSeq b) h tr1 h1 ONormal -> exec_defers p ds h1 tr2 h2 o ->
    exec_defers p (b :: ds) h (tr1 ++ tr2) h2 o
| ED_Halt b ds h tr h1 o :
    exec_body p (SSeq b) h tr h1 o -> halted o -> exec_defers p (b :: ds) h tr h1 o.

(* one goroutine running function f, started with held set h *)
Definition exec_fun (p : program) (f : string) (h : held) (tr : list obs) (h' : held) (o : outcome) : Prop :=
  match lookup p f with
  | Some body => exec_body p body h tr h' o
  | None => tr = [] /\ h' = h /\ o = OError
  end.

Scheme exec_mind := Minimality for exec Sort Prop
  with exec_seq_mind := Minimality for exec_seq Sort Prop
  with exec_body_mind := Minimality for exec_body Sort Prop
  with exec_defers_mind := Minimality for exec_defers Sort Prop.
Combined Scheme exec_mutind from exec_mind, exec_seq_mind, exec_body_mind, exec_defers_mind.

(* ------------------------------------------------------------------------------------------------------------ *)
(** * The checker *)

(* result of checking a statement: None (outer) = rejected; Some None = accepted, never continues normally (every
   path breaks or returns); Some (Some (h, ds)) = accepted, continues with held set h and defer stack ds *)
Definition cres := option (held * dstack).
Definition chk_t := sk -> held -> dstack -> option cres.

Fixpoint seq_with (chk : chk_t) (l : list sk) (h : held) (ds : dstack) : option cres :=
  match l with
  | [] => Some (Some (h, ds))
  | s :: l' =>
      match chk s h ds with
      | None => None
      | Some None => Some None
      | Some (Some (h1, ds1)) => seq_with chk l' h1 ds1
      end
  end.

(* all branches that continue must continue with the same held set and must not leave a deferred block behind *)
Fixpoint if_with (chk : chk_t) (bs : list sk) (h : held) (ds : dstack) : option cres :=
  match bs with
  | [] => Some None
  | b :: bs' =>
      match chk b h ds, if_with chk bs' h ds with
      | Some r, Some acc =>
          match r with
          | None => Some acc
          | Some (h1, ds1) =>
              if Nat.eqb (List.length ds1) (List.length ds) then
                match acc with
                | None => Some (Some (h1, ds))
                | Some (ha, _) => if seteq h1 ha then Some acc else None
                end
              else None
          end
      | _, _ => None
      end
  end.

(* a deferred block: runs to its end, no return / break / defer of its own *)
Definition block_with (chk : chk_t) (b : list sk) (h : held) : option held :=
  match seq_with chk b h [] with
  | Some (Some (h', [])) => Some h'
  | _ => None
  end.

Fixpoint defers_with (chk : chk_t) (ds : dstack) (h : held) : option held :=
  match ds with
  | [] => Some h
  | b :: ds' =>
      match block_with chk b h with
      | Some h1 => defers_with chk ds' h1
      | None => None
      end
  end.

(* check_sk fuel p h0 lp s h ds:
     h0 = Some e: we are in a function body that was entered with held set e (a return must restore it);
          None:   we are in a deferred block (return not accepted);
     lp = Some (l, k): we are in a loop entered with held set l and k deferred blocks; None: not in a loop. *)
Fixpoint check_sk (fuel : nat) (p : program) (h0 : option held) (lp : option (held * nat))
         (s : sk) (h : held) (ds : dstack) {struct fuel} : option cres :=
  match fuel with
  | 0 => None
  | S n =>
      match s with
      | SAct a =>
          if act_ok a h then
            match step_held a h with Some h' => Some (Some (h', ds)) | None => None end
          else None
      | SDefer b => Some (Some (h, b :: ds))
      | SCall f =>
          match lookup p f with
          | None => None
          | Some body =>
              match check_sk n p (Some h) None body h [] with
              | None => None
              | Some None => Some (Some (h, ds))
              | Some (Some (h1, ds1)) =>
                  match defers_with (check_sk n p None None) ds1 h1 with
                  | Some hf => if seteq hf h then Some (Some (h, ds)) else None
                  | None => None
                  end
              end
          end
      | SSeq l => seq_with (check_sk n p h0 lp) l h ds
      | SIf [] => Some (Some (h, ds))
      | SIf bs => if_with (check_sk n p h0 lp) bs h ds
      | SLoop b =>
          match check_sk n p h0 (Some (h, List.length ds)) b h ds with
          | None => None
          | Some None => Some (Some (h, ds))
          | Some (Some (h1, ds1)) =>
              if seteq h1 h && (Nat.eqb (List.length ds1) (List.length ds)) then Some (Some (h, ds)) else None
          end
      | SReturn =>
          match h0 with
          | None => None
          | Some e =>
              match defers_with (check_sk n p None None) ds h with
              | Some hf => if seteq hf e then Some None else None
              | None => None
              end
          end
      | SBreak =>
          match lp with
          | Some (l, k) => if seteq h l && (Nat.eqb (List.length ds) k) then Some None else None
          | None => None
          end
      | SUnrecognised _ => None
      end
  end.

(* an entry point is a function started by a goroutine that holds nothing *)
Definition check_entry (fuel : nat) (p : program) (f : string) : bool :=
  match check_sk fuel p None None (SCall f) [] [] with Some _ => true | None => false end.

Definition entry_points : list string :=
  ["inotify.readEvents"; "inotify.AddWith"; "inotify.Add"; "inotify.Remove"; "inotify.WatchList";
   "inotify.Close"; "newBackend"; "NewWatcher"; "NewBufferedWatcher"].

Definition discipline_ok (p : program) : bool := forallb (check_entry 200 p) entry_points.

(* ------------------------------------------------------------------------------------------------------------ *)
(** * Soundness of the checker *)

(* the defer stack only grows while a statement runs *)
Lemma exec_defers_ext p :
  (forall s h ds tr h' ds' o, exec p s h ds tr h' ds' o -> exists pre, ds' = pre ++ ds) /\
  (forall l h ds tr h' ds' o, exec_seq p l h ds tr h' ds' o -> exists pre, ds' = pre ++ ds) /\
  (forall s h tr h' o, exec_body p s h tr h' o -> True) /\
  (forall ds h tr h' o, exec_defers p ds h tr h' o -> True).
Proof.
  apply exec_mutind; intros; auto; try (exists []; reflexivity).
  - exists [b]. reflexivity.
  - destruct H0 as [pre1 ->]. destruct H3 as [pre2 ->]. exists (pre2 ++ pre1). now rewrite app_assoc.
  - destruct H0 as [pre1 ->]. destruct H2 as [pre2 ->]. exists (pre2 ++ pre1). now rewrite app_assoc.
Qed.

Lemma exec_same_defers p s h ds tr h' ds' o :
  exec p s h ds tr h' ds' o -> List.length ds' = List.length ds -> ds' = ds.
Proof.
  intros H Hl. destruct (proj1 (exec_defers_ext p) _ _ _ _ _ _ _ H) as [pre ->].
  rewrite app_length in Hl. destruct pre; [reflexivity | simpl in Hl; lia].
Qed.

Section Soundness.
Variable p : program.

Definition chk0 (n : nat) : chk_t := check_sk n p None None.

(* what acceptance by the checker (with result res) says about an execution that ends with hr' / ds' / o *)
Definition post (h0 : option held) (lp : option (held * nat)) (res : cres)
           (tr : list obs) (hr' : held) (ds' : dstack) (o : outcome) : Prop :=
  Forall obs_ok tr /\
  match o with
  | ONormal => exists hc', res = Some (hc', ds') /\ sameset hr' hc'
  | OBreak => exists l, lp = Some (l, List.length ds') /\ sameset hr' l
  | OReturn => exists e n hc' hf,
      h0 = Some e /\ sameset hr' hc' /\ defers_with (chk0 n) ds' hc' = Some hf /\ sameset hf e
  | OStop => True
  | OError => False
  end.

Lemma post_abrupt h0 lp lp' res res' tr hr' ds' o :
  o <> ONormal -> o <> OBreak -> post h0 lp res tr hr' ds' o -> post h0 lp' res' tr hr' ds' o.
Proof. unfold post. destruct o; intros; try congruence; assumption. Qed.

Lemma post_res h0 lp res res' tr hr' ds' o :
  o <> ONormal -> post h0 lp res tr hr' ds' o -> post h0 lp res' tr hr' ds' o.
Proof. unfold post. destruct o; intros; try congruence; assumption. Qed.

Lemma post_app h0 lp res tr1 tr2 hr' ds' o :
  Forall obs_ok tr1 -> post h0 lp res tr2 hr' ds' o -> post h0 lp res (tr1 ++ tr2) hr' ds' o.
Proof. unfold post. intros H1 [H2 H3]. split; [apply Forall_app; now split | assumption]. Qed.

(* inversion of the checker on calls, loops and branches *)
Lemma check_call_inv n h0 lp f hc ds res :
  check_sk (S n) p h0 lp (SCall f) hc ds = Some res ->
  exists body r,
    lookup p f = Some body /\ check_sk n p (Some hc) None body hc [] = Some r /\ res = Some (hc, ds) /\
    (forall h1 ds1, r = Some (h1, ds1) ->
       exists m hf', defers_with (chk0 m) ds1 h1 = Some hf' /\ sameset hf' hc).
Proof.
  simpl. destruct (lookup p f) as [body|]; [|discriminate].
  destruct (check_sk n p (Some hc) None body hc []) as [[[h1 ds1]|]|] eqn:E; [| |discriminate].
  - destruct (defers_with (check_sk n p None None) ds1 h1) as [hf|] eqn:D; [|discriminate].
    destruct (seteq hf hc) eqn:S; [|discriminate]. intro H; inversion H; subst.
    exists body, (Some (h1, ds1)). repeat split; auto. intros h1' ds1' H'; inversion H'; subst.
    exists n, hf. split; [exact D | now apply seteq_sound].
  - intro H; inversion H; subst. exists body, None. repeat split; auto. intros; discriminate.
Qed.

Lemma check_loop_inv n h0 lp b hc ds res :
  check_sk (S n) p h0 lp (SLoop b) hc ds = Some res ->
  res = Some (hc, ds) /\
  exists r, check_sk n p h0 (Some (hc, List.length ds)) b hc ds = Some r /\
    (forall h1 ds1, r = Some (h1, ds1) -> sameset h1 hc /\ List.length ds1 = List.length ds).
Proof.
  simpl. destruct (check_sk n p h0 (Some (hc, List.length ds)) b hc ds) as [[[h1 ds1]|]|] eqn:E; [| |discriminate].
  - destruct (seteq h1 hc && Nat.eqb (List.length ds1) (List.length ds)) eqn:S; [|discriminate].
    apply andb_true_iff in S. destruct S as [S1 S2]. apply Nat.eqb_eq in S2.
    intro H; inversion H; subst. split; [reflexivity|]. eexists; split; [reflexivity|].
    intros h1' ds1' H'; inversion H'; subst. split; [now apply seteq_sound | assumption].
  - intro H; inversion H; subst. split; [reflexivity|]. eexists; split; [reflexivity|]. intros; discriminate.
Qed.

Lemma if_with_res_ds (chk : chk_t) bs hc ds ha da :
  if_with chk bs hc ds = Some (Some (ha, da)) -> da = ds.
Proof.
  revert ha da. induction bs as [|b1 bs IHbs]; intros ha da Eacc; [discriminate|].
  simpl in Eacc. destruct (chk b1 hc ds) as [r1|]; [|discriminate].
  destruct (if_with chk bs hc ds) as [acc'|]; [|discriminate].
  destruct r1 as [[h1' ds1']|].
  - destruct (Nat.eqb (List.length ds1') (List.length ds)); [|discriminate].
    destruct acc' as [[ha' da']|].
    + destruct (seteq h1' ha'); [|discriminate]. inversion Eacc; subst. now apply (IHbs ha da).
    + now inversion Eacc.
  - inversion Eacc; subst. now apply (IHbs ha da).
Qed.

Lemma if_with_inv (chk : chk_t) bs hc ds res :
  if_with chk bs hc ds = Some res ->
  forall b, In b bs ->
    exists r, chk b hc ds = Some r /\
      (forall h1 ds1, r = Some (h1, ds1) ->
         List.length ds1 = List.length ds /\ exists hres, res = Some (hres, ds) /\ sameset h1 hres).
Proof.
  revert res. induction bs as [|b0 bs IH]; intros res H b Hin; [destruct Hin|].
  simpl in H. destruct (chk b0 hc ds) as [r0|] eqn:E0; [|discriminate].
  destruct (if_with chk bs hc ds) as [acc|] eqn:Eacc; [|discriminate].
  specialize (IH acc eq_refl).
  destruct r0 as [[h0' ds0]|].
  - destruct (Nat.eqb (List.length ds0) (List.length ds)) eqn:L; [|discriminate]. apply Nat.eqb_eq in L.
    destruct acc as [[ha da]|].
    + destruct (seteq h0' ha) eqn:S; [|discriminate]. inversion H; subst res. apply seteq_sound in S.
      destruct Hin as [<-|Hin].
      * exists (Some (h0', ds0)). split; [assumption|]. intros h1 ds1 H'; inversion H'; subst.
        split; [assumption|].
        assert (da = ds) as -> by (eapply if_with_res_ds; eassumption).
        exists ha. split; [reflexivity | assumption].
      * destruct (IH b Hin) as [r [Hr Hp]]. exists r. split; [assumption|]. exact Hp.
    + inversion H; subst res. destruct Hin as [<-|Hin].
      * exists (Some (h0', ds0)). split; [assumption|]. intros h1 ds1 H'; inversion H'; subst.
        split; [assumption|]. exists h1. split; [reflexivity | apply sameset_refl].
      * destruct (IH b Hin) as [r [Hr Hp]]. exists r. split; [assumption|].
        intros h1 ds1 H'. destruct (Hp h1 ds1 H') as [_ [hres [Hres _]]]. discriminate.
  - inversion H; subst res. destruct Hin as [<-|Hin].
    + exists None. split; [assumption|]. intros; discriminate.
    + exact (IH b Hin).
Qed.

Definition P_exec s hr ds tr hr' ds' o : Prop :=
  forall n h0 lp hc res,
    sameset hr hc -> check_sk n p h0 lp s hc ds = Some res -> post h0 lp res tr hr' ds' o.

Definition P_seq l hr ds tr hr' ds' o : Prop :=
  forall n h0 lp hc res,
    sameset hr hc -> seq_with (check_sk n p h0 lp) l hc ds = Some res -> post h0 lp res tr hr' ds' o.

(* hf: the held set the checker expects at the very end of the body *)
Definition P_body s hr tr hr' o : Prop :=
  forall n h0 hc res hf,
    sameset hr hc -> check_sk n p h0 None s hc [] = Some res ->
    (forall h1 ds1, res = Some (h1, ds1) ->
       exists m hf', defers_with (chk0 m) ds1 h1 = Some hf' /\ sameset hf' hf) ->
    (forall e, h0 = Some e -> sameset e hf) ->
    Forall obs_ok tr /\ o <> OError /\ (o = ONormal -> sameset hr' hf).

Definition P_defers ds hr tr hr' o : Prop :=
  forall n hc hf,
    sameset hr hc -> defers_with (chk0 n) ds hc = Some hf ->
    Forall obs_ok tr /\ o <> OError /\ (o = ONormal -> sameset hr' hf).

Lemma sound_all :
  (forall s h ds tr h' ds' o, exec p s h ds tr h' ds' o -> P_exec s h ds tr h' ds' o) /\
  (forall l h ds tr h' ds' o, exec_seq p l h ds tr h' ds' o -> P_seq l h ds tr h' ds' o) /\
  (forall s h tr h' o, exec_body p s h tr h' o -> P_body s h tr h' o) /\
  (forall ds h tr h' o, exec_defers p ds h tr h' o -> P_defers ds h tr h' o).
Proof.
  apply exec_mutind.
  - (* E_Act *)
    intros a h ds h' Hst n h0 lp hc res Hs Hc. destruct n; [discriminate|]. simpl in Hc.
    destruct (act_ok a hc) eqn:Ha; [|discriminate].
    destruct (step_held a hc) as [hc'|] eqn:Hsc; [|discriminate]. inversion Hc; subst.
    destruct (step_held_sameset _ _ _ _ Hs Hsc) as [hr' [E1 E2]]. rewrite Hst in E1; inversion E1; subst.
    split; [constructor; [eapply act_ok_sound; eauto | constructor]|].
    exists hc'. split; [reflexivity | assumption].
  - (* E_ActErr *)
    intros a h ds Hst n h0 lp hc res Hs Hc. destruct n; [discriminate|]. simpl in Hc.
    destruct (act_ok a hc) eqn:Ha; [|discriminate].
    destruct (step_held a hc) as [hc'|] eqn:Hsc; [|discriminate].
    destruct (step_held_sameset _ _ _ _ Hs Hsc) as [hr' [E1 E2]]. congruence.
  - (* E_Defer *)
    intros b h ds n h0 lp hc res Hs Hc. destruct n; [discriminate|]. simpl in Hc. inversion Hc; subst.
    split; [constructor|]. exists hc. split; [reflexivity | assumption].
  - (* E_Call *)
    intros f body h ds tr h' Hl Hex IH n h0 lp hc res Hs Hc. destruct n; [discriminate|].
    apply check_call_inv in Hc. destruct Hc as (body' & r & Hl' & Hb & -> & Hd).
    rewrite Hl in Hl'; inversion Hl'; subst body'.
    destruct (IH n (Some hc) hc r hc Hs Hb Hd) as (F & _ & Hn).
    { intros e He; inversion He; apply sameset_refl. }
    split; [exact F|]. exists hc. split; [reflexivity | now apply Hn].
  - (* E_CallHalt *)
    intros f body h ds tr h' o Hl Hex IH Hh n h0 lp hc res Hs Hc. destruct n; [discriminate|].
    apply check_call_inv in Hc. destruct Hc as (body' & r & Hl' & Hb & -> & Hd).
    rewrite Hl in Hl'; inversion Hl'; subst body'.
    destruct (IH n (Some hc) hc r hc Hs Hb Hd) as (F & NE & _).
    { intros e He; inversion He; apply sameset_refl. }
    split; [exact F|]. destruct Hh as [-> | ->]; [exact I | congruence].
  - (* E_CallUnknown *)
    intros f h ds Hl n h0 lp hc res Hs Hc. destruct n; [discriminate|]. simpl in Hc. rewrite Hl in Hc. discriminate.
  - (* E_Seq *)
    intros l h ds tr h' ds' o Hex IH n h0 lp hc res Hs Hc. destruct n; [discriminate|]. simpl in Hc.
    eapply IH; eauto.
  - (* E_IfNil *)
    intros h ds n h0 lp hc res Hs Hc. destruct n; [discriminate|]. simpl in Hc. inversion Hc; subst.
    split; [constructor|]. exists hc. split; [reflexivity | assumption].
  - (* E_If *)
    intros bs b h ds tr h' ds' o Hin Hex IH n h0 lp hc res Hs Hc. destruct n; [discriminate|].
    destruct bs as [|b0 bs0]; [destruct Hin|].
    change (if_with (check_sk n p h0 lp) (b0 :: bs0) hc ds = Some res) in Hc.
    destruct (if_with_inv _ _ _ _ _ Hc b Hin) as [r [Hr Hp]].
    specialize (IH n h0 lp hc r Hs Hr).
    destruct o; try (eapply post_res; [discriminate | exact IH]).
    destruct IH as [F [hc' [-> Hs']]]. destruct (Hp _ _ eq_refl) as [L [hres [-> Hs'']]].
    apply exec_same_defers in Hex; [|assumption]. subst ds'.
    split; [assumption|]. exists hres. split; [reflexivity | eapply sameset_trans; eauto].
  - (* E_LoopDone *)
    intros b h ds n h0 lp hc res Hs Hc. destruct n; [discriminate|].
    apply check_loop_inv in Hc. destruct Hc as [-> _].
    split; [constructor|]. exists hc. split; [reflexivity | assumption].
  - (* E_LoopIter *)
    intros b h ds tr1 h1 ds1 o1 tr2 h2 ds2 o2 Hex1 IH1 Ho1 Hex2 IH2 n h0 lp hc res Hs Hc.
    destruct n; [discriminate|].
    pose proof Hc as Hc'. apply check_loop_inv in Hc'. destruct Hc' as [-> [r [Hr Hp]]].
    specialize (IH1 n h0 _ hc r Hs Hr). destruct IH1 as [F X].
    assert (sameset h1 hc /\ ds1 = ds) as [Hs1 ->].
    { destruct Ho1 as [-> | ->].
      - destruct X as [hc' [-> Hs']]. destruct (Hp _ _ eq_refl) as [A B].
        split; [eapply sameset_trans; eauto | eapply exec_same_defers; eauto].
      - destruct X as [l [E Hs']]. inversion E; subst l.
        split; [assumption | eapply exec_same_defers; eauto]. }
    apply post_app; [assumption|]. eapply IH2; eauto.
  - (* E_LoopExit *)
    intros b h ds tr h' ds' o Hex IH Ho n h0 lp hc res Hs Hc. destruct n; [discriminate|].
    apply check_loop_inv in Hc. destruct Hc as [-> [r [Hr Hp]]].
    specialize (IH n h0 _ hc r Hs Hr).
    eapply post_abrupt; [| |exact IH]; destruct Ho as [-> | [-> | ->]]; discriminate.
  - (* E_Return *)
    intros h ds n h0 lp hc res Hs Hc. destruct n; [discriminate|]. simpl in Hc.
    destruct h0 as [e|]; [|discriminate].
    destruct (defers_with (check_sk n p None None) ds hc) as [hf|] eqn:D; [|discriminate].
    destruct (seteq hf e) eqn:S; [|discriminate].
    split; [constructor|]. exists e, n, hc, hf. split; [reflexivity|]. split; [assumption|]. split; [exact D|]. now apply seteq_sound.
  - (* E_Break *)
    intros h ds n h0 lp hc res Hs Hc. destruct n; [discriminate|]. simpl in Hc.
    destruct lp as [[l k]|]; [|discriminate].
    destruct (seteq hc l && Nat.eqb (List.length ds) k) eqn:S; [|discriminate].
    apply andb_true_iff in S. destruct S as [S1 S2]. apply Nat.eqb_eq in S2. subst k.
    split; [constructor|]. exists l. split; [reflexivity|].
    eapply sameset_trans; [exact Hs | now apply seteq_sound].
  - (* E_Unrecognised *)
    intros src h ds n h0 lp hc res Hs Hc. destruct n; discriminate.
  - (* E_Stop *)
    intros s h ds n h0 lp hc res Hs Hc. split; [constructor | exact I].
  - (* ES_Nil *)
    intros h ds n h0 lp hc res Hs Hc. simpl in Hc. inversion Hc; subst.
    split; [constructor|]. exists hc. split; [reflexivity | assumption].
  - (* ES_Cons *)
    intros s l h ds tr1 h1 ds1 tr2 h2 ds2 o Hex1 IH1 Hex2 IH2 n h0 lp hc res Hs Hc. simpl in Hc.
    destruct (check_sk n p h0 lp s hc ds) as [r|] eqn:E; [|discriminate].
    destruct (IH1 n h0 lp hc r Hs E) as [F [hc1 [-> Hs1]]].
    apply post_app; [assumption|]. eapply IH2; eauto.
  - (* ES_Abort *)
    intros s l h ds tr h' ds' o Hex IH Ho n h0 lp hc res Hs Hc. simpl in Hc.
    destruct (check_sk n p h0 lp s hc ds) as [r|] eqn:E; [|discriminate].
    eapply post_res; [exact Ho|]. eapply IH; eauto.
  - (* EB_Done *)
    intros s h tr1 h1 ds1 o tr2 h2 o2 Hex IH Ho Hexd IHd n h0 hc res hf Hs Hc Hd He.
    specialize (IH n h0 None hc res Hs Hc). destruct IH as [F X].
    assert (exists m hc' hf', sameset h1 hc' /\ defers_with (chk0 m) ds1 hc' = Some hf' /\ sameset hf' hf)
      as (m & hc' & hf' & Hs' & D & S).
    { destruct Ho as [-> | ->].
      - destruct X as [hc' [-> Hs']]. destruct (Hd _ _ eq_refl) as [m [hf' [D S]]]. exists m, hc', hf'. auto.
      - destruct X as (e & m & hc' & hf0 & -> & Hs' & D & S). exists m, hc', hf0.
        split; [assumption|]. split; [assumption|]. eapply sameset_trans; eauto. }
    destruct (IHd m hc' hf' Hs' D) as (F2 & NE & Hn).
    split; [apply Forall_app; now split|]. split; [assumption|].
    intro Ho2. eapply sameset_trans; eauto.
  - (* EB_Halt *)
    intros s h tr h1 ds1 o Hex IH Hh n h0 hc res hf Hs Hc Hd He.
    specialize (IH n h0 None hc res Hs Hc). destruct IH as [F X].
    destruct Hh as [-> | ->]; [|destruct X].
    split; [assumption|]. split; discriminate.
  - (* EB_Break *)
    intros s h tr h1 ds1 Hex IH n h0 hc res hf Hs Hc Hd He.
    specialize (IH n h0 None hc res Hs Hc). destruct IH as [F [l [E _]]]. discriminate.
  - (* ED_Nil *)
    intros h n hc hf Hs Hc. simpl in Hc. inversion Hc; subst.
    split; [constructor|]. split; [discriminate | auto].
  - (* ED_Cons *)
    intros b ds h tr1 h1 tr2 h2 o Hex IH Hexd IHd n hc hf Hs Hc. simpl in Hc.
    destruct (block_with (chk0 n) b hc) as [hb|] eqn:B; [|discriminate]. unfold block_with in B.
    destruct (seq_with (chk0 n) b hc []) as [[[hb' [|? ?]]|]|] eqn:Q; try discriminate.
    inversion B; subst hb'.
    destruct (IH (S n) None hc (Some (hb, [])) hb Hs Q) as (F & _ & Hn).
    { intros h1' ds1' E; inversion E; subst. exists 0, h1'. split; [reflexivity | apply sameset_refl]. }
    { intros e E; discriminate. }
    destruct (IHd n hb hf (Hn eq_refl) Hc) as (F2 & NE & Hn2).
    split; [apply Forall_app; now split|]. split; assumption.
  - (* ED_Halt *)
    intros b ds h tr h1 o Hex IH Hh n hc hf Hs Hc. simpl in Hc.
    destruct (block_with (chk0 n) b hc) as [hb|] eqn:B; [|discriminate]. unfold block_with in B.
    destruct (seq_with (chk0 n) b hc []) as [[[hb' [|? ?]]|]|] eqn:Q; try discriminate.
    inversion B; subst hb'.
    destruct (IH (S n) None hc (Some (hb, [])) hb Hs Q) as (F & NE & _).
    { intros h1' ds1' E; inversion E; subst. exists 0, h1'. split; [reflexivity | apply sameset_refl]. }
    { intros e E; discriminate. }
    split; [assumption|]. split; [assumption|]. intros ->. destruct Hh; discriminate.
Qed.

End Soundness.

(** The main theorem.  For an accepted entry point, EVERY execution — complete (o = ONormal) or cut at an arbitrary
    point (o = OStop), so also every prefix of a run that blocks or never ends — satisfies P1–P3 at each executed
    act, never reaches an error, and a complete one ends with no mutex held (P4). *)
Theorem discipline_sound : forall p f fuel,
  check_entry fuel p f = true ->
  forall body, lookup p f = Some body ->
  forall trace held' o, exec_fun p f [] trace held' o ->
    Forall obs_ok trace /\ o <> OError /\ (o = ONormal -> held' = []).
Proof.
  intros p f fuel Hc body Hl tr h' o Hex. unfold exec_fun in Hex. rewrite Hl in Hex.
  unfold check_entry in Hc.
  destruct (check_sk fuel p None None (SCall f) [] []) as [res|] eqn:E; [|discriminate].
  destruct fuel as [|n]; [discriminate|].
  apply check_call_inv in E. destruct E as (body' & r & Hl' & Hb & _ & Hd).
  rewrite Hl in Hl'. inversion Hl'; subst body'.
  destruct (proj1 (proj2 (proj2 (sound_all p))) _ _ _ _ _ Hex n (Some []) [] r [] (sameset_refl _) Hb Hd)
    as (F & NE & Hn).
  { intros e He. inversion He. apply sameset_refl. }
  split; [assumption|]. split; [assumption|]. intro Ho. apply sameset_nil. now apply Hn.
Qed.

(* an accepted entry point has a body *)
Lemma check_entry_lookup fuel p f : check_entry fuel p f = true -> exists body, lookup p f = Some body.
Proof.
  unfold check_entry. destruct fuel as [|n]; [discriminate|]. simpl.
  destruct (lookup p f) as [body|]; [eauto | discriminate].
Qed.

(* the statement in the shape used by the certificate: complete executions *)
Corollary discipline_sound_complete : forall p f fuel,
  check_entry fuel p f = true ->
  forall body, lookup p f = Some body ->
  forall trace held', exec_fun p f [] trace held' ONormal ->
    held' = [] /\ Forall obs_ok trace.
Proof.
  intros p f fuel Hc body Hl tr h' Hex.
  destruct (discipline_sound p f fuel Hc body Hl tr h' ONormal Hex) as (F & _ & Hn). split; auto.
Qed.

(* Conversion hint.  With an abstract program, comparing two copies of [check_entry 200 p f] by reduction is
   hopeless (the kernel would unfold 200 levels of check_sk under every branch), so tell the conversion to unfold
   the wrapper first and compare [check_entry 200 p] syntactically.  vm_compute on a concrete program is unaffected. *)
Strategy expand [discipline_ok].

(* what discipline_ok certifies for a whole program *)
Corollary discipline_ok_sound : forall p,
  discipline_ok p = true ->
  forall f, In f entry_points ->
  forall trace held' o, exec_fun p f [] trace held' o ->
    Forall obs_ok trace /\ o <> OError /\ (o = ONormal -> held' = []).
Proof.
  intros p Hok f Hin tr h' o Hex.
  pose proof (proj1 (forallb_forall (check_entry 200 p) entry_points) Hok f Hin) as Hf.
  destruct (check_entry_lookup _ _ _ Hf) as [body Hl].
  exact (discipline_sound p f 200 Hf body Hl tr h' o Hex).
Qed.

(* ------------------------------------------------------------------------------------------------------------ *)
(** * Syntactic checks *)

(* functions called (SCall) somewhere in s, deferred blocks included *)
Fixpoint calls_in (s : sk) : list string :=
  match s with
  | SCall f => [f]
  | SDefer b => flat_map calls_in b
  | SSeq l => flat_map calls_in l
  | SIf bs => flat_map calls_in bs
  | SLoop b => calls_in b
  | _ => []
  end.

(* acts occurring somewhere in s, deferred blocks included *)
Fixpoint acts_in (s : sk) : list act :=
  match s with
  | SAct a => [a]
  | SDefer b => flat_map acts_in b
  | SSeq l => flat_map acts_in l
  | SIf bs => flat_map acts_in bs
  | SLoop b => acts_in b
  | _ => []
  end.

Definition str_mem (f : string) (l : list string) : bool := existsb (String.eqb f) l.

Definition body_of (p : program) (f : string) : sk :=
  match lookup p f with Some b => b | None => SSeq [] end.

(* worklist closure; if the fuel runs out the answer is an over-approximation (every function of the program) *)
Fixpoint reach_aux (fuel : nat) (p : program) (todo seen : list string) : list string :=
  match fuel with
  | 0 => map fst p ++ todo ++ seen
  | S n =>
      match todo with
      | [] => seen
      | f :: rest =>
          if str_mem f seen then reach_aux n p rest seen
          else reach_aux n p (calls_in (body_of p f) ++ rest) (f :: seen)
      end
  end.

(* reach fuel p f: the functions reachable from f through SCall (f included) *)
Definition reach (fuel : nat) (p : program) (f : string) : list string := reach_aux fuel p [f] [].

(* acts_of fuel p f: every act occurring syntactically in a function reachable from f *)
Definition acts_of (fuel : nat) (p : program) (f : string) : list act :=
  flat_map (fun g => acts_in (body_of p g)) (reach fuel p f).

(* enough fuel for the closure: every function is expanded at most once, every call occurrence is popped once *)
Definition reach_fuel (p : program) : nat :=
  2 + List.length p + fold_right (fun fb n => List.length (calls_in (snd fb)) + n) 0 p.

Definition all_acts (p : program) : list act := flat_map (fun fb => acts_in (snd fb)) p.
Definition count_acts (pr : act -> bool) (l : list act) : nat := List.length (filter pr l).

Definition is_ev_err (c : chan) : bool := chan_eqb c ChEvents || chan_eqb c ChErrors.

(* acts reserved to the reader goroutine: sending on / closing Events or Errors, closing doneResp *)
Definition reader_only_act (a : act) : bool :=
  match a with
  | ASend c => is_ev_err c
  | ASelect cs => existsb (fun sc => fst sc && is_ev_err (snd sc)) cs
  | AClose c => is_ev_err c || chan_eqb c ChDoneResp
  | _ => false
  end.

(* only_reader_sends: no entry point other than the reader can reach a send on, or a close of, Events / Errors, or a
   close of doneResp *)
Definition only_reader_sends (p : program) : bool :=
  forallb (fun e => String.eqb e "inotify.readEvents" ||
                    forallb (fun a => negb (reader_only_act a)) (acts_of (reach_fuel p) p e))
          entry_points.

Definition is_go (a : act) : bool := match a with AGo _ => true | _ => false end.

(* no_go_in_reader: the reader goroutine starts no goroutine *)
Definition no_go_in_reader (p : program) : bool :=
  forallb (fun a => negb (is_go a)) (acts_of (reach_fuel p) p "inotify.readEvents").

(* single_reader_start: the program has exactly one go statement: newBackend starts inotify.readEvents *)
Definition single_reader_start (p : program) : bool :=
  forallb (fun fb => forallb (fun a => negb (is_go a) ||
                                       (String.eqb (fst fb) "newBackend" && act_eqb a (AGo "inotify.readEvents")))
                             (acts_in (snd fb))) p
  && Nat.eqb (count_acts is_go (all_acts p)) 1
  && Nat.eqb (count_acts is_go (acts_in (body_of p "newBackend"))) 1.

(* shape predicates on single statements *)
Definition is_call (f : string) (s : sk) : bool := match s with SCall g => String.eqb f g | _ => false end.
Definition is_act (a : act) (s : sk) : bool := match s with SAct b => act_eqb a b | _ => false end.
Definition is_sreturn (s : sk) : bool := match s with SReturn => true | _ => false end.
Definition is_return (s : sk) : bool :=        (* SReturn, possibly wrapped in a singleton SSeq *)
  match s with SReturn => true | SSeq [SReturn] => true | _ => false end.
Definition is_guard (s : sk) : bool :=         (* an SIf whose first branch returns *)
  match s with SIf (b :: _) => is_return b | _ => false end.
Definition is_guard2 (s : sk) : bool :=        (* an SIf with exactly two branches, the first of which returns *)
  match s with SIf [b; _] => is_return b | _ => false end.
Definition has_return_branch (s : sk) : bool := match s with SIf bs => existsb is_return bs | _ => false end.

(* l is exactly as long as preds and matches it item by item *)
Fixpoint shape_exact (preds : list (sk -> bool)) (l : list sk) : bool :=
  match preds, l with
  | [], [] => true
  | pr :: preds', x :: l' => pr x && shape_exact preds' l'
  | _, _ => false
  end.

(* l starts with items matching preds *)
Fixpoint shape_prefix (preds : list (sk -> bool)) (l : list sk) : bool :=
  match preds, l with
  | [], _ => true
  | pr :: preds', x :: l' => pr x && shape_prefix preds' l'
  | _ :: _, [] => false
  end.

(* l has, in this order (not necessarily adjacent), items matching preds *)
Fixpoint shape_subseq (l : list sk) (preds : list (sk -> bool)) {struct l} : bool :=
  match preds with
  | [] => true
  | pr :: preds' =>
      match l with
      | [] => false
      | x :: l' => if pr x then shape_subseq l' preds' else shape_subseq l' preds
      end
  end.

Definition is_defer_of (acts : list act) (s : sk) : bool :=
  match s with SDefer b => shape_exact (map is_act acts) b | _ => false end.

Definition top_items (s : sk) : list sk := match s with SSeq l => l | _ => [s] end.

(* guard_first: AddWith, Remove and WatchList start by calling isClosed and returning if it says closed *)
Definition guard_first (p : program) : bool :=
  forallb (fun f => match lookup p f with
                    | Some (SSeq l) => shape_prefix [is_call "shared.isClosed"; is_guard] l
                    | _ => false
                    end)
          ["inotify.AddWith"; "inotify.Remove"; "inotify.WatchList"].

Definition is_close_done (a : act) : bool := act_eqb a (AClose ChDone).

(* close_shape: shared.close closes done exactly once, under the mutex, guarded by isClosed, and nothing else in the
   program closes it; inotify.Close calls it, returns if it was already closed, then closes the file, then waits for
   the reader (receive on doneResp) *)
Definition close_shape (p : program) : bool :=
  match lookup p "shared.close" with
  | Some (SSeq l) =>
      shape_exact [is_act (ALock MuMain); is_defer_of [AUnlock MuMain]; is_call "shared.isClosed"; is_guard2;
                   is_act (AClose ChDone); is_sreturn] l
  | _ => false
  end
  && Nat.eqb (count_acts is_close_done (all_acts p)) 1
  && match lookup p "inotify.Close" with
     | Some (SSeq l) =>
         shape_subseq l [is_call "shared.close"; has_return_branch; is_act AFileClose; is_act (ARecv ChDoneResp)]
     | _ => false
     end.

Definition is_reader_close (a : act) : bool :=
  match a with AClose c => is_ev_err c || chan_eqb c ChDoneResp | _ => false end.

(* reader_exit_shape: the reader first defers closing doneResp, Errors and Events, and these three closes are the
   only ones of these channels in the program *)
Definition reader_exit_shape (p : program) : bool :=
  match lookup p "inotify.readEvents" with
  | Some (SSeq l) => shape_prefix [is_defer_of [AClose ChDoneResp; AClose ChErrors; AClose ChEvents]] l
  | _ => false
  end
  && Nat.eqb (count_acts is_reader_close (all_acts p)) 3.

(* sends_select_done: in sendEvent / sendError (and whatever they call) the only blocking act is a select between
   receiving from done and sending on Events resp. Errors, so a blocked send is released by Close *)
Definition sends_select_done (p : program) : bool :=
  list_eqb act_eqb (filter blocking (acts_of (reach_fuel p) p "shared.sendEvent"))
           [ASelect [(false, ChDone); (true, ChEvents)]]
  && list_eqb act_eqb (filter blocking (acts_of (reach_fuel p) p "shared.sendError"))
              [ASelect [(false, ChDone); (true, ChErrors)]].

(* init_first: newBackend begins with InotifyInit1 and returns at once if it failed, before doing anything else *)
Definition init_first (p : program) : bool :=
  match lookup p "newBackend" with
  | Some (SSeq l) => shape_prefix [is_act (ASyscall "InotifyInit1"); is_guard] l
  | _ => false
  end.

(* cfg_ok: the lock discipline and every shape check *)
Definition cfg_ok (p : program) : bool :=
  discipline_ok p && only_reader_sends p && no_go_in_reader p && single_reader_start p && guard_first p
  && close_shape p && reader_exit_shape p && sends_select_done p && init_first p.

Strategy expand [cfg_ok].

(* the facts exported to the protocol model (Conc.v): may a send happen inside a critical section? and guard_first *)
Definition send_in_cs (p : program) : bool := negb (discipline_ok p).
Strategy expand [send_in_cs].

Lemma cfg_ok_discipline p : cfg_ok p = true -> discipline_ok p = true.
Proof. unfold cfg_ok. rewrite !andb_true_iff. tauto. Qed.

Lemma cfg_ok_guard_first p : cfg_ok p = true -> guard_first p = true.
Proof. unfold cfg_ok. rewrite !andb_true_iff. tauto. Qed.

Lemma cfg_ok_send_in_cs p : cfg_ok p = true -> send_in_cs p = false.
Proof. intro H. unfold send_in_cs. now rewrite (cfg_ok_discipline p H). Qed.

(* a program accepted by cfg_ok: no blocking act (in particular no send) is ever executed with a mutex held *)
Corollary cfg_ok_sound : forall p,
  cfg_ok p = true ->
  forall f, In f entry_points ->
  forall trace held' o, exec_fun p f [] trace held' o ->
    Forall obs_ok trace /\ o <> OError /\ (o = ONormal -> held' = []).
Proof. intros p H. apply discipline_ok_sound. now apply cfg_ok_discipline. Qed.

(* ------------------------------------------------------------------------------------------------------------ *)
(** * The generated program *)

(* the instantiation on the generated program is obl/OblCfg.v: this file does not depend on generated files *)


(* ------------------------------------------------------------------------------------------------------------ *)
(** * The checks can fail: hand-written programs *)

Definition set_fun (f : string) (body : sk) (p : program) : program :=
  map (fun fb => if String.eqb (fst fb) f then (f, body) else fb) p.

Definition guard : list sk := [SCall "shared.isClosed"; SIf [SReturn; SSeq []]].
Definition locked : list sk := [SAct (ALock MuMain); SDefer [SAct (AUnlock MuMain)]].

(* a miniature of the library that passes everything *)
Definition mini : program := [
  ("shared.isClosed", SSeq [SAct (APoll ChDone); SIf [SReturn; SReturn]]);
  ("shared.close", SSeq (locked ++ guard ++ [SAct (AClose ChDone); SReturn]));
  ("shared.sendEvent", SSeq [SAct (ASelect [(false, ChDone); (true, ChEvents)]); SReturn]);
  ("shared.sendError", SSeq [SAct (ASelect [(false, ChDone); (true, ChErrors)]); SReturn]);
  ("inotify.readEvents",
     SSeq [SDefer [SAct (AClose ChDoneResp); SAct (AClose ChErrors); SAct (AClose ChEvents)];
           SLoop (SSeq (guard ++
                   [SAct AFileRead;
                    SIf [SSeq [SCall "shared.sendError"; SBreak]; SSeq []];
                    SAct (ALock MuMain); SAct (ATable false); SAct (AUnlock MuMain);
                    SAct (ALock MuCookies); SAct ARing; SAct (AUnlock MuCookies);
                    SCall "shared.sendEvent"; SIf [SReturn; SSeq []]]))]);
  ("inotify.AddWith", SSeq (guard ++ locked ++ [SAct (ASyscall "InotifyAddWatch"); SAct (ATable true); SReturn]));
  ("inotify.Add", SSeq [SCall "inotify.AddWith"; SReturn]);
  ("inotify.Remove", SSeq (guard ++ locked ++ [SAct (ATable true); SAct (ASyscall "InotifyRmWatch"); SReturn]));
  ("inotify.WatchList", SSeq (guard ++ locked ++ [SAct (ATable false); SLoop (SSeq []); SReturn]));
  ("inotify.Close",
     SSeq [SCall "shared.close"; SIf [SReturn; SSeq []]; SAct AFileClose; SAct (ARecv ChDoneResp); SReturn]);
  ("newBackend",
     SSeq [SAct (ASyscall "InotifyInit1"); SIf [SReturn; SSeq []]; SAct (AGo "inotify.readEvents"); SReturn]);
  ("NewWatcher", SSeq [SCall "newBackend"; SReturn]);
  ("NewBufferedWatcher", SSeq [SCall "newBackend"; SReturn])
].

Example mini_ok : cfg_ok mini = true.
Proof. vm_compute. reflexivity. Qed.

(** Lock discipline (check_entry) on one-function programs *)

Definition one (body : list sk) : program := [("f", SSeq body)].

(* accepted: lock, deferred unlock, table access, early return in a branch, loop with break *)
Example ok_locked_table :
  check_entry 200 (one (locked ++ [SAct (ATable true); SIf [SReturn; SSeq []];
                                   SLoop (SSeq [SAct (ATable false); SIf [SBreak; SSeq []]]); SReturn])) "f" = true.
Proof. vm_compute. reflexivity. Qed.

(* accepted: a callee may rely on the mutex held by its caller *)
Example ok_callee_under_lock :
  check_entry 200 [("f", SSeq (locked ++ [SCall "g"; SReturn])); ("g", SSeq [SAct (ATable false); SReturn])] "f"
  = true.
Proof. vm_compute. reflexivity. Qed.

(* P1: a send while holding MuMain *)
Example bad_send_locked : check_entry 200 (one (locked ++ [SAct (ASend ChEvents); SReturn])) "f" = false.
Proof. vm_compute. reflexivity. Qed.

(* P1: … also when the send is in a callee, or is a select, a receive or a file read *)
Example bad_send_in_callee :
  check_entry 200 [("f", SSeq (locked ++ [SCall "g"; SReturn]));
                   ("g", SSeq [SAct (ASelect [(false, ChDone); (true, ChEvents)]); SReturn])] "f" = false.
Proof. vm_compute. reflexivity. Qed.
Example bad_recv_locked : check_entry 200 (one (locked ++ [SAct (ARecv ChDoneResp)])) "f" = false.
Proof. vm_compute. reflexivity. Qed.
Example bad_read_locked : check_entry 200 (one (locked ++ [SAct AFileRead])) "f" = false.
Proof. vm_compute. reflexivity. Qed.

(* P2: a table access without MuMain (holding only MuCookies) *)
Example bad_table_unlocked :
  check_entry 200 (one [SAct (ALock MuCookies); SAct (ATable false); SAct (AUnlock MuCookies)]) "f" = false.
Proof. vm_compute. reflexivity. Qed.

(* P2: the same callee as in ok_callee_under_lock, called without the lock *)
Example bad_callee_without_lock :
  check_entry 200 [("f", SSeq [SCall "g"; SReturn]); ("g", SSeq [SAct (ATable false); SReturn])] "f" = false.
Proof. vm_compute. reflexivity. Qed.

(* P3: a ring access under the wrong mutex *)
Example bad_ring_wrong_mutex : check_entry 200 (one (locked ++ [SAct ARing])) "f" = false.
Proof. vm_compute. reflexivity. Qed.

(* P4: lock without unlock; unlock on one branch only; early return that skips the unlock; double lock;
   unlock of a mutex that is not held; a loop body that accumulates a lock *)
Example bad_no_unlock : check_entry 200 (one [SAct (ALock MuMain); SAct (ATable true)]) "f" = false.
Proof. vm_compute. reflexivity. Qed.
Example bad_branch_unlock :
  check_entry 200 (one [SAct (ALock MuMain); SIf [SAct (AUnlock MuMain); SSeq []]; SAct (ATable true)]) "f" = false.
Proof. vm_compute. reflexivity. Qed.
Example bad_return_skips_unlock :
  check_entry 200 (one [SAct (ALock MuMain); SIf [SReturn; SSeq []]; SAct (AUnlock MuMain)]) "f" = false.
Proof. vm_compute. reflexivity. Qed.
Example bad_double_lock : check_entry 200 (one (locked ++ [SAct (ALock MuMain); SAct (AUnlock MuMain)])) "f" = false.
Proof. vm_compute. reflexivity. Qed.
Example bad_unlock_not_held : check_entry 200 (one [SAct (AUnlock MuMain)]) "f" = false.
Proof. vm_compute. reflexivity. Qed.
Example bad_loop_lock : check_entry 200 (one [SLoop (SAct (ALock MuMain))]) "f" = false.
Proof. vm_compute. reflexivity. Qed.
Example bad_break_locked :
  check_entry 200 (one [SLoop (SSeq [SAct (ALock MuMain); SIf [SBreak; SSeq []]; SAct (AUnlock MuMain)])]) "f"
  = false.
Proof. vm_compute. reflexivity. Qed.

(* unknown callee, untranslated statement, recursion (fuel), missing entry point *)
Example bad_unknown_callee : check_entry 200 (one [SCall "nowhere"]) "f" = false.
Proof. vm_compute. reflexivity. Qed.
Example bad_unrecognised : check_entry 200 (one [SUnrecognised "goto L"]) "f" = false.
Proof. vm_compute. reflexivity. Qed.
Example bad_recursion : check_entry 200 (one [SIf [SCall "f"; SSeq []]]) "f" = false.
Proof. vm_compute. reflexivity. Qed.
Example bad_no_entry : check_entry 200 (one []) "g" = false.
Proof. vm_compute. reflexivity. Qed.

(* discipline_ok / send_in_cs on the miniature with a send moved into the critical section of the reader *)
Definition mini_send_in_cs : program :=
  set_fun "inotify.readEvents"
    (SSeq [SDefer [SAct (AClose ChDoneResp); SAct (AClose ChErrors); SAct (AClose ChEvents)];
           SLoop (SSeq [SAct AFileRead; SAct (ALock MuMain); SAct (ATable false); SCall "shared.sendEvent";
                        SAct (AUnlock MuMain)])]) mini.
Example bad_mini_send_in_cs : discipline_ok mini_send_in_cs = false /\ send_in_cs mini_send_in_cs = true.
Proof. vm_compute. split; reflexivity. Qed.

(* the semantics is not vacuous: the rejected program bad_send_locked really has a run with a bad observation *)
Example bad_send_locked_has_bad_run :
  exists tr, exec_fun (one (locked ++ [SAct (ASend ChEvents); SReturn])) "f" [] tr [] ONormal
             /\ ~ Forall obs_ok tr.
Proof.
  eexists. split.
  - unfold exec_fun. simpl.
    eapply EB_Done;
      [ apply E_Seq;
        eapply ES_Cons; [apply E_Act; reflexivity|];
        eapply ES_Cons; [apply E_Defer|];
        eapply ES_Cons; [apply E_Act; reflexivity|];
        eapply ES_Abort; [apply E_Return | discriminate]
      | right; reflexivity
      | eapply ED_Cons;
          [ eapply EB_Done;
              [ apply E_Seq; eapply ES_Cons; [apply E_Act; reflexivity | apply ES_Nil]
              | left; reflexivity
              | apply ED_Nil ]
          | apply ED_Nil ] ].
  - simpl. intro H. rewrite Forall_forall in H.
    assert (obs_ok (ASend ChEvents, [MuMain])) as [B _] by (apply H; simpl; auto).
    specialize (B eq_refl). discriminate.
Qed.

(** Shape checks on mutants of the miniature *)

(* an API function without the isClosed guard *)
Example bad_guard_first :
  guard_first (set_fun "inotify.Remove"
                 (SSeq (locked ++ [SAct (ATable true); SAct (ASyscall "InotifyRmWatch"); SReturn])) mini) = false.
Proof. vm_compute. reflexivity. Qed.

(* … or with the guard after taking the lock *)
Example bad_guard_late :
  guard_first (set_fun "inotify.WatchList" (SSeq (locked ++ guard ++ [SAct (ATable false); SReturn])) mini) = false.
Proof. vm_compute. reflexivity. Qed.

(* an API function that (through a callee) sends an event itself *)
Example bad_only_reader_sends :
  only_reader_sends (set_fun "inotify.Remove" (SSeq (guard ++ [SCall "shared.sendEvent"; SReturn])) mini) = false.
Proof. vm_compute. reflexivity. Qed.

(* Close closing the Events channel itself *)
Example bad_only_reader_closes :
  only_reader_sends
    (set_fun "inotify.Close"
       (SSeq [SCall "shared.close"; SIf [SReturn; SSeq []]; SAct AFileClose; SAct (ARecv ChDoneResp);
              SAct (AClose ChEvents); SReturn]) mini) = false.
Proof. vm_compute. reflexivity. Qed.

(* the reader starting a goroutine (in a callee) *)
Example bad_go_in_reader :
  no_go_in_reader (set_fun "shared.sendError" (SSeq [SAct (AGo "helper"); SReturn]) mini) = false.
Proof. vm_compute. reflexivity. Qed.

(* a second reader started by AddWith; no reader started at all *)
Example bad_second_reader :
  single_reader_start
    (set_fun "inotify.AddWith" (SSeq (guard ++ [SAct (AGo "inotify.readEvents"); SReturn])) mini) = false.
Proof. vm_compute. reflexivity. Qed.
Example bad_no_reader :
  single_reader_start
    (set_fun "newBackend" (SSeq [SAct (ASyscall "InotifyInit1"); SIf [SReturn; SSeq []]; SReturn]) mini) = false.
Proof. vm_compute. reflexivity. Qed.

(* shared.close without the isClosed guard (double close of done); done also closed elsewhere;
   Close waiting for the reader before closing the file *)
Example bad_close_unguarded :
  close_shape (set_fun "shared.close" (SSeq (locked ++ [SAct (AClose ChDone); SReturn])) mini) = false.
Proof. vm_compute. reflexivity. Qed.
Example bad_close_twice :
  close_shape
    (set_fun "inotify.Close"
       (SSeq [SCall "shared.close"; SIf [SReturn; SSeq []]; SAct (AClose ChDone); SAct AFileClose;
              SAct (ARecv ChDoneResp); SReturn]) mini) = false.
Proof. vm_compute. reflexivity. Qed.
Example bad_close_order :
  close_shape
    (set_fun "inotify.Close"
       (SSeq [SCall "shared.close"; SIf [SReturn; SSeq []]; SAct (ARecv ChDoneResp); SAct AFileClose; SReturn])
       mini) = false.
Proof. vm_compute. reflexivity. Qed.

(* the reader closing its channels at the end of the loop instead of in a defer; a stray extra close *)
Example bad_reader_exit :
  reader_exit_shape
    (set_fun "inotify.readEvents"
       (SSeq [SLoop (SSeq (guard ++ [SAct AFileRead; SCall "shared.sendEvent"]));
              SAct (AClose ChDoneResp); SAct (AClose ChErrors); SAct (AClose ChEvents)]) mini) = false.
Proof. vm_compute. reflexivity. Qed.
Example bad_reader_extra_close :
  reader_exit_shape
    (set_fun "shared.sendError" (SSeq [SAct (AClose ChErrors); SReturn]) mini) = false.
Proof. vm_compute. reflexivity. Qed.

(* sendEvent with a plain send: Close could not release it *)
Example bad_plain_send :
  sends_select_done (set_fun "shared.sendEvent" (SSeq [SAct (ASend ChEvents); SReturn]) mini) = false.
Proof. vm_compute. reflexivity. Qed.
Example bad_select_without_done :
  sends_select_done
    (set_fun "shared.sendError" (SSeq [SAct (ASelect [(true, ChErrors)]); SReturn]) mini) = false.
Proof. vm_compute. reflexivity. Qed.

(* newBackend starting the reader before it knows that InotifyInit1 succeeded *)
Example bad_init_first :
  init_first
    (set_fun "newBackend"
       (SSeq [SAct (AGo "inotify.readEvents"); SAct (ASyscall "InotifyInit1"); SIf [SReturn; SSeq []]; SReturn])
       mini) = false.
Proof. vm_compute. reflexivity. Qed.

(* every mutant above is rejected by cfg_ok as a whole, too *)
Example bad_cfg_ok_mutant :
  cfg_ok (set_fun "inotify.Remove" (SSeq (locked ++ [SAct (ATable true); SReturn])) mini) = false.
Proof. vm_compute. reflexivity. Qed.

Print Assumptions discipline_sound.
Print Assumptions discipline_ok_sound.
