(* Recurse.v — recursive watches (property C19): removal of a recursive root, path rewriting after a
   rename, registration of a new directory, and the name given to delivered events.
   Sub-trees are delimited by path COMPONENTS: sibling directories whose names merely share a string
   prefix (dir1 / dir10) are never touched.  Everything here is proved; no axioms. *)
From stdpp Require Import gmap strings list.
From Fsn Require Import PathLex Bytes Tables Doc Watcher System.
From Fsn Require PathLexProofs.
Local Open Scope N_scope.

(* ------------------------------------------------------------------ *)
(* 1. generic map lemmas                                               *)
(* ------------------------------------------------------------------ *)

Lemma foldr_delete_fst_lookup `{Countable Key} {A B} (l : list (Key * B)) (m : gmap Key A) (k : Key) :
  (foldr (λ pw m, delete pw.1 m) m l) !! k = if decide (k ∈ l.*1) then None else m !! k.
Proof.
  induction l as [|[k' b] l IH].
  - rewrite fmap_nil. rewrite decide_False by apply not_elem_of_nil. done.
  - rewrite fmap_cons. cbn [foldr fst snd].
    destruct (decide (k = k')) as [->|Hne].
    + rewrite lookup_delete. rewrite decide_True; [done|]. apply elem_of_cons. by left.
    + rewrite lookup_delete_ne by done. rewrite IH.
      destruct (decide (k ∈ l.*1)) as [Hin|Hnin].
      * rewrite decide_True; [done|]. apply elem_of_cons. by right.
      * rewrite decide_False; [done|]. intros [?|?]%elem_of_cons; done.
Qed.

Lemma foldr_delete_snd_lookup `{Countable Key} {A B} (l : list (B * Key)) (m : gmap Key A) (k : Key) :
  (foldr (λ pw m, delete pw.2 m) m l) !! k = if decide (k ∈ l.*2) then None else m !! k.
Proof.
  induction l as [|[b k'] l IH].
  - rewrite fmap_nil. rewrite decide_False by apply not_elem_of_nil. done.
  - rewrite fmap_cons. cbn [foldr fst snd].
    destruct (decide (k = k')) as [->|Hne].
    + rewrite lookup_delete. rewrite decide_True; [done|]. apply elem_of_cons. by left.
    + rewrite lookup_delete_ne by done. rewrite IH.
      destruct (decide (k ∈ l.*2)) as [Hin|Hnin].
      * rewrite decide_True; [done|]. apply elem_of_cons. by right.
      * rewrite decide_False; [done|]. intros [?|?]%elem_of_cons; done.
Qed.

(* filters that agree on the elements of the list *)
Lemma filter_ext_in {A} (P1 P2 : A → Prop) `{!∀ x, Decision (P1 x), !∀ x, Decision (P2 x)} (l : list A) :
  (∀ x, x ∈ l → P1 x ↔ P2 x) → filter P1 l = filter P2 l.
Proof.
  induction l as [|a l IH]; intro Hext; [done|].
  rewrite !filter_cons.
  assert (Ha : P1 a ↔ P2 a) by (apply Hext; apply elem_of_cons; by left).
  rewrite IH by (intros y Hy; apply Hext; apply elem_of_cons; by right).
  destruct (decide (P1 a)), (decide (P2 a)); tauto.
Qed.

(* ------------------------------------------------------------------ *)
(* string helpers                                                      *)
(* ------------------------------------------------------------------ *)

Lemma is_under_refl p : is_under p p = true.
Proof. apply PathLexProofs.is_under_spec. by left. Qed.

Lemma is_under_unfold p root :
  is_under p root = String.eqb p root || has_prefix p (root +:+ "/").
Proof. reflexivity. Qed.

Lemma is_under_ne p root : p ≠ root → is_under p root = has_prefix p (root +:+ "/").
Proof.
  intro Hne. rewrite is_under_unfold.
  destruct (String.eqb_spec p root) as [->|_]; [done|]. reflexivity.
Qed.

(* the first component of a path is determined *)
Lemma first_comp_inj a b x y :
  PathLexProofs.no_slash a → PathLexProofs.no_slash b →
  a +:+ "/" +:+ x = b +:+ "/" +:+ y → a = b.
Proof.
  revert b. induction a as [|c a IH]; intros b Ha Hb Heq.
  - destruct b as [|d b]; [done|]. simpl in Heq. injection Heq as Hd _.
    apply PathLexProofs.no_slash_cons in Hb as [Hd' _]. by subst d.
  - destruct b as [|d b].
    + simpl in Heq. injection Heq as Hc _.
      apply PathLexProofs.no_slash_cons in Ha as [Hc' _]. by subst c.
    + simpl in Heq. injection Heq as -> Heq.
      apply PathLexProofs.no_slash_cons in Ha as [_ Ha].
      apply PathLexProofs.no_slash_cons in Hb as [_ Hb].
      f_equal. by apply IH.
Qed.

(* the shape of "the entry itself or something below it" *)
Definition comp_tail (rest : string) : Prop := rest = "" ∨ ∃ rest', rest = "/" +:+ rest'.

(* parent/a, parent/a/..., are not under parent/b when a and b are different component names *)
Lemma sibling_tree_not_under parent a b rest :
  PathLexProofs.no_slash a → PathLexProofs.no_slash b → a ≠ b → comp_tail rest →
  is_under (parent +:+ "/" +:+ a +:+ rest) (parent +:+ "/" +:+ b) = false.
Proof.
  intros Ha Hb Hab Hrest. apply not_true_is_false. intro Hu.
  apply PathLexProofs.is_under_spec in Hu as [Heq|[rest2 Heq]].
  - do 2 apply PathLexProofs.sapp_cancel_l in Heq.
    destruct Hrest as [->|[rest' ->]].
    + rewrite PathLexProofs.sapp_nil_r in Heq. done.
    + rewrite <- Heq in Hb. by apply PathLexProofs.slash_not_no_slash in Hb.
  - rewrite !PathLexProofs.sapp_assoc in Heq.
    do 2 apply PathLexProofs.sapp_cancel_l in Heq.
    destruct Hrest as [->|[rest' ->]].
    + rewrite PathLexProofs.sapp_nil_r in Heq.
      rewrite Heq in Ha. by apply PathLexProofs.slash_not_no_slash in Ha.
    + apply Hab. eapply first_comp_inj; eauto.
Qed.

(* ------------------------------------------------------------------ *)
(* 2. removing a recursive root                                        *)
(* ------------------------------------------------------------------ *)

(* the table entries strictly below [root], as removePath collects them *)
Definition victims_of (W : wstate) (root : string) : list (string * N) :=
  filter (λ pw, has_prefix pw.1 (root +:+ "/") = true) (map_to_list (delete root (t_path W))).

Lemma remove_path_rec_unfold W arg root r wd x :
  recursive_path true arg = (root, r) →
  t_path W !! root = Some wd → t_wd W !! wd = Some x → w_rec x = true →
  remove_path true W arg =
    (set_tables W (foldr (λ pw m, delete pw.2 m) (delete wd (t_wd W)) (victims_of W root))
                  (foldr (λ pw m, delete pw.1 m) (delete root (t_path W)) (victims_of W root)),
     inr (wd :: (victims_of W root).*2)).
Proof.
  intros Hrp Hp Hw Hrec. unfold remove_path. rewrite Hrp, Hp, Hw, Hrec.
  destruct r; reflexivity.
Qed.

Lemma elem_of_victims W root p w :
  (p, w) ∈ victims_of W root ↔ t_path W !! p = Some w ∧ p ≠ root ∧ is_under p root = true.
Proof.
  unfold victims_of. rewrite elem_of_list_filter, elem_of_map_to_list, lookup_delete_Some. cbn [fst].
  split.
  - intros (Hpre & Hne & Hl). split; [done|]. split; [done|]. rewrite is_under_ne by done. done.
  - intros (Hl & Hne & Hu). rewrite is_under_ne in Hu by done. done.
Qed.

Lemma elem_of_victims_fst W root p :
  p ∈ (victims_of W root).*1 ↔ ∃ w, t_path W !! p = Some w ∧ p ≠ root ∧ is_under p root = true.
Proof.
  rewrite elem_of_list_fmap. split.
  - intros ([p' w] & -> & Hin). exists w. by apply elem_of_victims.
  - intros (w & H). exists (p, w). split; [done|]. by apply elem_of_victims.
Qed.

Lemma elem_of_victims_snd W root w :
  w ∈ (victims_of W root).*2 ↔ ∃ p, t_path W !! p = Some w ∧ p ≠ root ∧ is_under p root = true.
Proof.
  rewrite elem_of_list_fmap. split.
  - intros ([p w'] & -> & Hin). exists p. by apply elem_of_victims.
  - intros (p & H). exists (p, w). split; [done|]. by apply elem_of_victims.
Qed.

(* the victims are, up to order, the entries of the table that are under root and are not root *)
Lemma victims_perm W root wd :
  t_path W !! root = Some wd →
  victims_of W root ≡ₚ
    filter (λ pw, pw.1 ≠ root ∧ is_under pw.1 root = true) (map_to_list (t_path W)).
Proof.
  intro Hp. rewrite <- (map_to_list_delete (t_path W) root wd Hp).
  rewrite filter_cons_False by (cbn [fst]; intros [? _]; done).
  unfold victims_of. erewrite filter_ext_in; [reflexivity|].
  intros [p w] Hin. apply elem_of_map_to_list, lookup_delete_Some in Hin as [Hne _]. cbn [fst].
  rewrite is_under_ne by done. split; [intro; split; done | intros [_ ?]; done].
Qed.

Theorem rec_remove_exact W arg root r wd x :
  recursive_path true arg = (root, r) →
  t_path W !! root = Some wd →
  t_wd W !! wd = Some x →
  w_rec x = true →
  ∃ W' wds,
    remove_path true W arg = (W', inr wds) ∧
    (* exactly the tree of root disappears from the path table *)
    (∀ p, t_path W' !! p = if is_under p root then None else t_path W !! p) ∧
    (* the descriptors handed to inotify_rm_watch *)
    (∀ w, w ∈ wds ↔ w = wd ∨ ∃ p, t_path W !! p = Some w ∧ p ≠ root ∧ is_under p root = true) ∧
    wds ≡ₚ wd :: (filter (λ pw, pw.1 ≠ root ∧ is_under pw.1 root = true) (map_to_list (t_path W))).*2 ∧
    (* exactly those descriptors disappear from the wd table *)
    (∀ w, t_wd W' !! w = if decide (w ∈ wds) then None else t_wd W !! w) ∧
    w_ring W' = w_ring W.
Proof.
  intros Hrp Hp Hw Hrec.
  eexists _, _. split; [eapply remove_path_rec_unfold; eauto|].
  split; [|split; [|split; [|split]]].
  - intro p. cbn [set_tables t_path]. rewrite foldr_delete_fst_lookup.
    destruct (decide (p = root)) as [->|Hne].
    + rewrite is_under_refl, lookup_delete. by destruct (decide _).
    + rewrite lookup_delete_ne by done.
      destruct (decide (p ∈ (victims_of W root).*1)) as [Hin|Hnin].
      * apply elem_of_victims_fst in Hin as (w & _ & _ & ->). done.
      * destruct (is_under p root) eqn:Hu; [|done].
        destruct (t_path W !! p) as [w|] eqn:Hl; [|done].
        exfalso. apply Hnin. apply elem_of_victims_fst. eauto.
  - intro w. rewrite elem_of_cons, elem_of_victims_snd. done.
  - constructor. apply fmap_Permutation. by eapply victims_perm.
  - intro w. cbn [set_tables t_wd]. rewrite foldr_delete_snd_lookup.
    destruct (decide (w = wd)) as [->|Hne].
    + rewrite lookup_delete. rewrite (decide_True (P := wd ∈ wd :: _)) by (apply elem_of_cons; by left).
      by destruct (decide _).
    + rewrite lookup_delete_ne by done.
      destruct (decide (w ∈ (victims_of W root).*2)) as [Hin|Hnin].
      * rewrite decide_True; [done|]. apply elem_of_cons. by right.
      * rewrite decide_False; [done|]. intros [?|?]%elem_of_cons; done.
  - reflexivity.
Qed.

(* sibling directories (and everything below them) survive the removal of a recursive root, even when
   their names extend the root's name as strings (dir1 / dir10) *)
Corollary rec_remove_spares_siblings W arg parent a b rest r wd x :
  PathLexProofs.no_slash a → PathLexProofs.no_slash b → a ≠ b → comp_tail rest →
  recursive_path true arg = (parent +:+ "/" +:+ b, r) →
  t_path W !! (parent +:+ "/" +:+ b) = Some wd →
  t_wd W !! wd = Some x →
  w_rec x = true →
  ∃ W' wds, remove_path true W arg = (W', inr wds) ∧
    t_path W' !! (parent +:+ "/" +:+ a +:+ rest) = t_path W !! (parent +:+ "/" +:+ a +:+ rest) ∧
    (∀ w y, t_path W !! (parent +:+ "/" +:+ a +:+ rest) = Some w → t_wd W !! w = Some y →
            (* the tables are consistent at least here: no entry in b's tree shares the descriptor *)
            (∀ p, t_path W !! p = Some w → p = parent +:+ "/" +:+ a +:+ rest) →
            t_wd W' !! w = Some y).
Proof.
  intros Ha Hb Hab Hrest Hrp Hp Hw Hrec.
  destruct (rec_remove_exact W arg _ r wd x Hrp Hp Hw Hrec) as (W' & wds & Heq & Hpath & Hwds & _ & Hwd & _).
  exists W', wds. split; [done|]. split.
  - rewrite Hpath. by rewrite sibling_tree_not_under.
  - intros w y Hl Hy Huniq. rewrite Hwd. rewrite decide_False; [done|].
    intros [->|(p & Hpl & Hne & Hu)]%Hwds.
    + apply Huniq in Hp.
      pose proof (sibling_tree_not_under parent a b rest Ha Hb Hab Hrest) as Hn.
      rewrite <- Hp in Hn. rewrite is_under_refl in Hn. done.
    + apply Huniq in Hpl. subst p. rewrite sibling_tree_not_under in Hu by done. done.
Qed.

(* ------------------------------------------------------------------ *)
(* 3. rewriting the paths below a renamed directory                    *)
(* ------------------------------------------------------------------ *)

Definition rewrite_one (skip : N) (old new : string) (x : watch) : watch :=
  if (w_wd x =? skip) || String.eqb (w_path x) new then x
  else if is_under (w_path x) old
       then mkWatch (w_wd x) (w_flags x) (replace_prefix (w_path x) old new) (w_rec x)
       else x.

Theorem rewrite_paths_exact W skip old new :
  t_path (rewrite_paths W skip old new) = rekey_paths (t_wd W) (t_path W) skip old new ∧
  w_ring (rewrite_paths W skip old new) = w_ring W ∧
  ∀ wd, t_wd (rewrite_paths W skip old new) !! wd =
    (λ x, if (w_wd x =? skip) || String.eqb (w_path x) new then x
          else if is_under (w_path x) old
               then mkWatch (w_wd x) (w_flags x) (replace_prefix (w_path x) old new) (w_rec x)
               else x) <$> (t_wd W !! wd).
Proof.
  split; [reflexivity|]. split; [reflexivity|].
  intro wd. unfold rewrite_paths. cbn [set_tables t_wd]. apply lookup_fmap.
Qed.

Lemma rewrite_paths_lookup W skip old new wd :
  t_wd (rewrite_paths W skip old new) !! wd = rewrite_one skip old new <$> (t_wd W !! wd).
Proof. apply (rewrite_paths_exact W skip old new). Qed.

(* the descriptor, the flags and the recursive bit are never changed *)
Lemma rewrite_one_keeps skip old new x :
  w_wd (rewrite_one skip old new x) = w_wd x ∧
  w_flags (rewrite_one skip old new x) = w_flags x ∧
  w_rec (rewrite_one skip old new x) = w_rec x.
Proof.
  unfold rewrite_one. destruct (_ || _); [done|]. destruct (is_under _ _); done.
Qed.

(* (a) a watch below [old] moves below [new], keeping the rest of its path *)
Theorem rewrite_paths_below W skip old new wd x rest :
  t_wd W !! wd = Some x →
  w_wd x ≠ skip →
  w_path x = old +:+ "/" +:+ rest →
  old +:+ "/" +:+ rest ≠ new →
  t_wd (rewrite_paths W skip old new) !! wd =
    Some (mkWatch (w_wd x) (w_flags x) (new +:+ "/" +:+ rest) (w_rec x)).
Proof.
  intros Hl Hskip Hpath Hnew. rewrite rewrite_paths_lookup, Hl. cbn [fmap option_fmap option_map].
  f_equal. unfold rewrite_one.
  apply N.eqb_neq in Hskip. rewrite Hskip. rewrite Hpath.
  apply String.eqb_neq in Hnew. rewrite Hnew. cbn [orb].
  assert (Hu : is_under (old +:+ "/" +:+ rest) old = true).
  { apply PathLexProofs.is_under_spec. right. by exists rest. }
  rewrite Hu. by rewrite PathLexProofs.replace_prefix_spec.
Qed.

(*     ... and the watch on the renamed directory itself ends up at [new] *)
Theorem rewrite_paths_root W skip old new wd x :
  t_wd W !! wd = Some x →
  w_wd x ≠ skip →
  w_path x = old →
  t_wd (rewrite_paths W skip old new) !! wd = Some (mkWatch (w_wd x) (w_flags x) new (w_rec x)).
Proof.
  intros Hl Hskip Hpath. rewrite rewrite_paths_lookup, Hl. cbn [fmap option_fmap option_map].
  f_equal. unfold rewrite_one.
  apply N.eqb_neq in Hskip. rewrite Hskip. rewrite Hpath. cbn [orb].
  destruct (String.eqb_spec old new) as [<-|Hne].
  - destruct x; cbn in *; by subst.
  - rewrite is_under_refl.
    rewrite <- (PathLexProofs.sapp_nil_r old) at 1.
    rewrite PathLexProofs.replace_prefix_spec. by rewrite PathLexProofs.sapp_nil_r.
Qed.

(* (b) a watch that is not under [old] is unchanged *)
Theorem rewrite_paths_outside W skip old new wd x :
  t_wd W !! wd = Some x →
  is_under (w_path x) old = false →
  t_wd (rewrite_paths W skip old new) !! wd = Some x.
Proof.
  intros Hl Hu. rewrite rewrite_paths_lookup, Hl. cbn [fmap option_fmap option_map].
  f_equal. unfold rewrite_one. rewrite Hu. by destruct (_ || _).
Qed.

(*     ... in particular a sibling directory, and everything below it *)
Corollary rewrite_paths_spares_siblings W skip parent a b rest new wd x :
  PathLexProofs.no_slash a → PathLexProofs.no_slash b → a ≠ b → comp_tail rest →
  t_wd W !! wd = Some x →
  w_path x = parent +:+ "/" +:+ a +:+ rest →
  t_wd (rewrite_paths W skip (parent +:+ "/" +:+ b) new) !! wd = Some x.
Proof.
  intros Ha Hb Hab Hrest Hl Hpath. eapply rewrite_paths_outside; [done|].
  rewrite Hpath. by apply sibling_tree_not_under.
Qed.

(*     the sibling itself needs [no_slash a] only *)
Corollary rewrite_paths_spares_sibling W skip parent a b new wd x :
  PathLexProofs.no_slash a → a ≠ b →
  t_wd W !! wd = Some x →
  w_path x = parent +:+ "/" +:+ a →
  t_wd (rewrite_paths W skip (parent +:+ "/" +:+ b) new) !! wd = Some x.
Proof.
  intros Ha Hab Hl Hpath. eapply rewrite_paths_outside; [done|].
  rewrite Hpath. apply not_true_is_false. intro Hu.
  by apply PathLexProofs.siblings_not_confused_strong in Hu.
Qed.

(* ------------------------------------------------------------------ *)
(* 3b. the path index is re-keyed together with the watch paths        *)
(* ------------------------------------------------------------------ *)

(* where a path ends up when [old] is renamed to [new] *)
Definition moved_path (old new p : string) : string :=
  if is_under p old then replace_prefix p old new else p.

Lemma rewrite_one_repathed skip old new x :
  rewrite_one skip old new x =
    if repathed skip old new x
    then mkWatch (w_wd x) (w_flags x) (replace_prefix (w_path x) old new) (w_rec x) else x.
Proof.
  unfold rewrite_one, repathed. destruct (_ || _); [done|]. cbn [negb andb]. by destruct (is_under _ _).
Qed.

Lemma foldr_insert_notin {A B} `{Countable Key} (f : A → Key) (g : A → B) (l : list A) (m : gmap Key B) k :
  k ∉ f <$> l → foldr (λ a m, <[f a := g a]> m) m l !! k = m !! k.
Proof.
  induction l as [|a l IH]; [done|]. rewrite fmap_cons, not_elem_of_cons. intros [Hne Hnin].
  cbn [foldr]. rewrite lookup_insert_ne by done. by apply IH.
Qed.

Lemma foldr_insert_in {A B} `{Countable Key} (f : A → Key) (g : A → B) (l : list A) (m : gmap Key B) a :
  NoDup (f <$> l) → a ∈ l → foldr (λ a m, <[f a := g a]> m) m l !! f a = Some (g a).
Proof.
  induction l as [|b l IH]; [by intros _ ?%elem_of_nil|].
  rewrite fmap_cons, NoDup_cons. intros [Hnin Hnd] [->|Hin]%elem_of_cons; cbn [foldr].
  - by rewrite lookup_insert.
  - rewrite lookup_insert_ne; [by apply IH|]. intros Heq. apply Hnin. rewrite Heq.
    apply elem_of_list_fmap. eauto.
Qed.

(* When the index is exact (its keys are the paths of the watches), the skip conditions of the loop do not
   bite, and no re-pathed watch lands on the path of another watch: the re-keyed index is exact again, for
   the new paths.  No key of the old location is left behind. *)
Theorem rekey_paths_index twd tpath skip old new :
  (∀ k wd, tpath !! k = Some wd ↔ ∃ x, twd !! wd = Some x ∧ w_path x = k) →
  (∀ wd x, twd !! wd = Some x → repathed skip old new x = is_under (w_path x) old) →
  (∀ wd wd' x x', twd !! wd = Some x → twd !! wd' = Some x' →
     moved_path old new (w_path x) = moved_path old new (w_path x') → w_path x = w_path x') →
  ∀ k wd, rekey_paths twd tpath skip old new !! k = Some wd ↔
          ∃ x, twd !! wd = Some x ∧ moved_path old new (w_path x) = k.
Proof.
  intros Hidx Hrep Hinj k wd. unfold rekey_paths.
  set (moved := filter (λ kx : N * watch, repathed skip old new kx.2 = true) (map_to_list twd)).
  set (kept := filter _ tpath).
  set (f := λ kx : N * watch, replace_prefix (w_path kx.2) old new).
  change (foldr _ kept moved) with (foldr (λ a m, <[f a := a.1]> m) kept moved).
  assert (Hmoved : ∀ w x, (w, x) ∈ moved ↔ twd !! w = Some x ∧ is_under (w_path x) old = true).
  { intros w x. unfold moved. rewrite elem_of_list_filter, elem_of_map_to_list. cbn [snd]. split.
    - intros [Hr Hx]. split; [done|]. by rewrite <- (Hrep w x Hx).
    - intros [Hx Hu]. split; [|done]. by rewrite (Hrep w x Hx). }
  assert (Hf : ∀ w x, (w, x) ∈ moved → f (w, x) = moved_path old new (w_path x)).
  { intros w x [_ Hu]%Hmoved. unfold f, moved_path. cbn [snd]. by rewrite Hu. }
  assert (Hpinj : ∀ w w' x x', twd !! w = Some x → twd !! w' = Some x' → w_path x = w_path x' → w = w').
  { intros w w' x x' Hx Hx' Heq.
    assert (tpath !! w_path x = Some w) as H1 by (apply Hidx; eauto).
    assert (tpath !! w_path x = Some w') as H2 by (apply Hidx; exists x'; eauto). congruence. }
  assert (Hnd : NoDup (f <$> moved)).
  { apply NoDup_fmap_2_strong.
    - intros [w x] [w' x'] Hin Hin' Heq. rewrite (Hf _ _ Hin), (Hf _ _ Hin') in Heq.
      apply Hmoved in Hin as [Hx _]. apply Hmoved in Hin' as [Hx' _].
      pose proof (Hinj _ _ _ _ Hx Hx' Heq) as Hp. pose proof (Hpinj _ _ _ _ Hx Hx' Hp) as ->.
      congruence.
    - unfold moved. apply NoDup_filter, NoDup_map_to_list. }
  assert (Hkept : ∀ k' w, kept !! k' = Some w ↔
            tpath !! k' = Some w ∧ ∀ x, twd !! w = Some x → w_path x = k' → is_under k' old = false).
  { intros k' w. unfold kept. rewrite map_filter_lookup_Some. cbn [fst snd]. split.
    - intros [Hk Hc]. split; [done|]. intros x Hx Hp. rewrite Hx in Hc.
      rewrite (Hrep w x Hx), Hp, String.eqb_refl, andb_true_r in Hc. by apply negb_true_iff in Hc.
    - intros [Hk Hc]. split; [done|]. destruct (twd !! w) as [x|] eqn:Hx; [|done].
      apply negb_true_iff. destruct (String.eqb_spec (w_path x) k') as [Hp|Hp]; [|apply andb_false_r].
      rewrite andb_true_r, (Hrep w x Hx), Hp. by apply (Hc x). }
  split.
  - intros Hl. destruct (decide (k ∈ f <$> moved)) as [Hin|Hnin].
    + apply elem_of_list_fmap in Hin as ([w x] & -> & Hin).
      rewrite (foldr_insert_in f fst moved kept (w, x) Hnd Hin) in Hl. cbn [fst] in Hl. injection Hl as ->.
      exists x. rewrite <- (Hf _ _ Hin). by apply Hmoved in Hin as [? _].
    + rewrite foldr_insert_notin in Hl by done. apply Hkept in Hl as [Hk Hc].
      apply Hidx in Hk as (x & Hx & Hp). exists x. split; [done|].
      unfold moved_path. by rewrite Hp, (Hc x Hx Hp).
  - intros (x & Hx & Hk). destruct (is_under (w_path x) old) eqn:Hu.
    + assert (Hin : (wd, x) ∈ moved) by by apply Hmoved.
      rewrite <- Hk, <- (Hf _ _ Hin). apply (foldr_insert_in f fst moved kept (wd, x) Hnd Hin).
    + assert (Hk' : w_path x = k) by (unfold moved_path in Hk; by rewrite Hu in Hk).
      rewrite foldr_insert_notin.
      * apply Hkept. split; [apply Hidx; eauto|]. intros x' Hx' _. congruence.
      * intros ([w' x'] & Heq & Hin)%elem_of_list_fmap. rewrite (Hf _ _ Hin) in Heq.
        apply Hmoved in Hin as [Hx' Hu']. cbn [snd] in *.
        assert (Hm : moved_path old new (w_path x) = moved_path old new (w_path x')) by congruence.
        apply (Hinj _ _ _ _ Hx Hx') in Hm. congruence.
Qed.

(* ------------------------------------------------------------------ *)
(* 4. a new directory under a recursive watch is registered            *)
(* ------------------------------------------------------------------ *)

Lemma translate_create mask :
  has_all mask IN_CREATE = true → has_any (translate mask) Create = true ∧ translate mask ≠ 0.
Proof.
  intro Hc. unfold translate, inotify_doc. rewrite doc_union_cons.
  unfold Bits.subN. rewrite N.land_comm. unfold has_all in Hc. rewrite Hc.
  set (rest := doc_union _ mask). split.
  - unfold has_any. rewrite N.land_lor_distr_l.
    apply negb_true_iff, N.eqb_neq. intro H0. apply N.lor_eq_0_iff in H0 as [H0 _].
    vm_compute in H0. discriminate.
  - intro H0. apply N.lor_eq_0_iff in H0 as [H0 _]. vm_compute in H0. discriminate.
Qed.

Lemma new_event_no_cookie R name mask : new_event R name mask 0 = (R, (name, translate mask, EmptyString)).
Proof. reflexivity. Qed.

(* registering a path that is not in the table, resolving to an inode that is not marked yet *)
Lemma register_fresh W K path flags res ino :
  t_path W !! path = None →
  pick_res flags res = inr ino →
  find_mark K ino = None →
  t_wd W !! next_wd K = None →
  ∃ W', register W K path flags true res =
          (W', mkK (<[next_wd K := ino]> (marks K)) (N.succ (next_wd K)) (kq K), None) ∧
    t_wd W' !! next_wd K = Some (mkWatch (next_wd K) flags path true) ∧
    t_path W' !! path = Some (next_wd K) ∧
    w_ring W' = w_ring W ∧
    (∀ p, p ≠ path → t_path W' !! p = t_path W !! p) ∧
    (∀ w, w ≠ next_wd K → w ≠ 0 → t_wd W' !! w = t_wd W !! w).
Proof.
  intros Hpath Hpick Hfm Hwd. unfold register. rewrite Hpath.
  change (None ≫= _) with (@None watch). cbv beta iota zeta.
  rewrite Hpick. unfold add_watch. rewrite Hfm. cbv beta iota zeta.
  rewrite Hwd. cbn [w_wd w_path default].
  destruct (next_wd K =? 0) eqn:E0.
  - eexists. split; [reflexivity|]. cbn [set_tables t_wd t_path w_ring].
    rewrite !lookup_insert. repeat split; try done.
    + intros p Hne. by rewrite lookup_insert_ne.
    + intros w Hne _. by rewrite lookup_insert_ne.
  - rewrite String.eqb_refl.
    eexists. split; [reflexivity|]. cbn [set_tables t_wd t_path w_ring].
    apply N.eqb_neq in E0.
    rewrite lookup_delete_ne by done. rewrite !lookup_insert. repeat split; try done.
    + intros p Hne. by rewrite lookup_insert_ne.
    + intros w Hne Hne0. rewrite lookup_delete_ne by done. by rewrite lookup_insert_ne.
Qed.

Theorem rec_new_dir_registered cwd W2 K2 dirs x r pre pending ino :
  let name := w_path x +:+ "/" +:+ r_name r in
  w_rec x = true →
  has_all (r_mask r) IN_ISDIR = true →
  has_all (r_mask r) IN_CREATE = true →
  has_any (r_mask r) IN_DELETE_SELF = false →
  r_cookie r = 0 →
  t_path W2 !! name = None →
  lookup_dir cwd dirs name = (inr ino, inr ino) →
  find_mark K2 ino = None →
  t_wd W2 !! next_wd K2 = None →
  ∃ W' K',
    deliver cwd W2 K2 dirs x r name pre pending = (W', K', pre ++ [OEv name (translate (r_mask r)) ""]) ∧
    has_any (translate (r_mask r)) Create = true ∧
    t_wd W' !! next_wd K2 = Some (mkWatch (next_wd K2) (w_flags x) name true) ∧
    t_path W' !! name = Some (next_wd K2) ∧
    marks K' !! next_wd K2 = Some ino ∧
    next_wd K' = N.succ (next_wd K2) ∧
    w_ring W' = w_ring W2 ∧
    (∀ p, p ≠ name → t_path W' !! p = t_path W2 !! p) ∧
    (∀ w, w ≠ next_wd K2 → w ≠ 0 → t_wd W' !! w = t_wd W2 !! w).
Proof.
  intros name Hrec Hdir Hcreate Hds Hcookie Hpath Hres Hfm Hwd.
  destruct (translate_create _ Hcreate) as [Hany Hnz].
  destruct (register_fresh (mkW (t_wd W2) (t_path W2) (w_ring W2)) K2 name (w_flags x)
              (lookup_dir cwd dirs name) ino) as (W' & Hreg & H1 & H2 & H3 & H4 & H5); try done.
  { rewrite Hres. unfold pick_res. by destruct (negb _). }
  exists W', (mkK (<[next_wd K2 := ino]> (marks K2)) (N.succ (next_wd K2)) (kq K2)).
  split; [|repeat split; try done; cbn [marks]; by rewrite lookup_insert].
  unfold deliver. rewrite Hds. cbn [andb]. rewrite Hcookie, new_event_no_cookie.
  cbn [fst snd]. rewrite Hrec, Hdir, Hany. cbn [andb].
  rewrite Hreg. cbn [String.eqb opt_err app]. unfold ev_out.
  apply N.eqb_neq in Hnz. rewrite Hnz. done.
Qed.

(* the rename half: a directory moved (IN_MOVED_TO with a cookie whose IN_MOVED_FROM half is in the ring)
   under a recursive watch is registered under its new name and the watches at and below the old name
   are re-pathed; what [register] does depends on whether the directory was already watched, so its
   result is left symbolic *)
Lemma translate_moved_to mask :
  has_all mask IN_MOVED_TO = true → has_any (translate mask) Create = true ∧ translate mask ≠ 0.
Proof.
  intro Hc. unfold translate, inotify_doc. rewrite !doc_union_cons.
  unfold Bits.subN. rewrite (N.land_comm IN_MOVED_TO). unfold has_all in Hc. rewrite Hc.
  set (rest := doc_union _ mask). set (a := if (_ : bool) then Create else 0). split.
  - unfold has_any. rewrite !N.land_lor_distr_l.
    apply negb_true_iff, N.eqb_neq. intro H0.
    apply N.lor_eq_0_iff in H0 as [_ H0]. apply N.lor_eq_0_iff in H0 as [H0 _].
    vm_compute in H0. discriminate.
  - intro H0. apply N.lor_eq_0_iff in H0 as [_ H0]. apply N.lor_eq_0_iff in H0 as [H0 _].
    vm_compute in H0. discriminate.
Qed.

Theorem rec_renamed_dir_rewritten cwd W2 K2 dirs x r name pre pending from :
  w_rec x = true →
  has_all (r_mask r) IN_ISDIR = true →
  has_all (r_mask r) IN_MOVED_TO = true →
  has_all (r_mask r) IN_MOVED_FROM = false →
  has_any (r_mask r) IN_DELETE_SELF = false →
  r_cookie r ≠ 0 →
  ring_lookup (w_ring W2) (r_cookie r) = from →
  from ≠ "" →
  ∀ W4 K4 rerr,
    register (mkW (t_wd W2) (t_path W2) (w_ring W2)) K2 name (w_flags x) true (lookup_dir cwd dirs name)
      = (W4, K4, rerr) →
    deliver cwd W2 K2 dirs x r name pre pending =
      (rewrite_paths W4 (w_wd x) from name, K4,
       pre ++ opt_err rerr ++ [OEv name (translate (r_mask r)) from]).
Proof.
  intros Hrec Hdir Hto Hfrom Hds Hcookie Hring Hne W4 K4 rerr Hreg.
  destruct (translate_moved_to _ Hto) as [Hany Hnz].
  unfold deliver. rewrite Hds. cbn [andb]. unfold new_event.
  apply N.eqb_neq in Hcookie. rewrite Hcookie, Hfrom, Hto, Hring.
  cbn [fst snd]. rewrite Hrec, Hdir, Hany. cbn [andb].
  rewrite Hreg. apply String.eqb_neq in Hne. rewrite Hne. unfold ev_out.
  apply N.eqb_neq in Hnz. rewrite Hnz. done.
Qed.

(* ------------------------------------------------------------------ *)
(* 5. deliver never alters the name it is given                        *)
(* ------------------------------------------------------------------ *)

Lemma new_event_name R name mask cookie :
  (new_event R name mask cookie).2.1.1 = name ∧ (new_event R name mask cookie).2.1.2 = translate mask.
Proof.
  unfold new_event. destruct (cookie =? 0); [done|].
  destruct (has_all mask IN_MOVED_FROM); [done|]. destruct (has_all mask IN_MOVED_TO); done.
Qed.

Lemma ev_out_name n op f o : o ∈ ev_out (n, op, f) → o = OEv n op f.
Proof.
  unfold ev_out. destruct (op =? 0); [by intros ?%elem_of_nil|].
  by intros ->%elem_of_list_singleton.
Qed.

Lemma opt_err_no_event e n op f : OEv n op f ∉ opt_err e.
Proof.
  destruct e as [e|]; cbn [opt_err]; [|apply not_elem_of_nil].
  by intros ?%elem_of_list_singleton.
Qed.

(* whatever the watch, the record and the tables: the output of [deliver] is [pre] followed by a tail in
   which every event carries exactly the name passed in (and the translated mask) *)
Theorem rec_event_named_under_watch_path cwd W2 K2 dirs x r name pre pending W' K' outs :
  deliver cwd W2 K2 dirs x r name pre pending = (W', K', outs) →
  ∃ tail, outs = pre ++ tail ∧
    ∀ n op f, OEv n op f ∈ tail → n = name ∧ op = translate (r_mask r).
Proof.
  unfold deliver. destruct (_ && _).
  - intros [= _ _ <-]. eexists. split; [reflexivity|]. intros n op f Hin.
    by apply opt_err_no_event in Hin.
  - pose proof (new_event_name (w_ring W2) name (r_mask r) (r_cookie r)) as [Hn Hop].
    destruct (new_event _ _ _ _) as [R3 [[n' op'] f']]. cbn [fst snd] in *. subst n' op'.
    destruct (_ && _).
    + destruct (register _ _ _ _ _ _) as [[W4 K4] rerr].
      intros [= _ _ <-]. eexists. split; [reflexivity|]. intros n op f Hin.
      apply elem_of_app in Hin as [Hin|Hin]; [by apply opt_err_no_event in Hin|].
      apply ev_out_name in Hin. by injection Hin as -> -> _.
    + intros [= _ _ <-]. eexists. split; [reflexivity|]. intros n op f Hin.
      apply elem_of_app in Hin as [Hin|Hin]; [by apply opt_err_no_event in Hin|].
      apply ev_out_name in Hin. by injection Hin as -> -> _.
Qed.

(* the form used by [handle]: a record with a name is reported under  <watch path>/<record name> *)
Corollary rec_event_named_in_handle cwd W2 K2 dirs x r pre pending W' K' outs :
  r_len r ≠ 0 →
  deliver cwd W2 K2 dirs x r (if r_len r =? 0 then w_path x else w_path x +:+ "/" +:+ r_name r) pre pending
    = (W', K', outs) →
  ∃ tail, outs = pre ++ tail ∧ ∀ n op f, OEv n op f ∈ tail → n = w_path x +:+ "/" +:+ r_name r.
Proof.
  intros Hlen. apply N.eqb_neq in Hlen. rewrite Hlen. intro Hd.
  apply rec_event_named_under_watch_path in Hd as (tail & -> & Ht).
  exists tail. split; [done|]. intros n op f Hin. by apply Ht in Hin as [-> _].
Qed.

(* ------------------------------------------------------------------ *)
(* 6. non-vacuity                                                      *)
(* ------------------------------------------------------------------ *)

Definition ex_watches : list watch :=
  [ mkWatch 1 0 "t" true; mkWatch 2 0 "t/dir1" true; mkWatch 3 0 "t/dir10" true;
    mkWatch 4 0 "t/dir1/sub" true; mkWatch 5 0 "t2" true ].
Definition ex_W : wstate :=
  mkW (list_to_map ((λ x, (w_wd x, x)) <$> ex_watches))
      (list_to_map ((λ x, (w_path x, w_wd x)) <$> ex_watches)) init_ring.

Example ex_recursive_path : recursive_path true "t/dir1/..." = ("t/dir1", true).
Proof. vm_compute. reflexivity. Qed.

(* removing t/dir1/... keeps exactly t, t/dir10, t2 *)
Example ex_remove :
  let '(W', res) := remove_path true ex_W "t/dir1/..." in
  map_to_list (t_path W') = [("t", 1); ("t2", 5); ("t/dir10", 3)]
  ∧ (λ x, (x.1, w_path x.2)) <$> map_to_list (t_wd W') = [(1, "t"); (3, "t/dir10"); (5, "t2")]
  ∧ res = inr [2; 4].
Proof. vm_compute. repeat split; reflexivity. Qed.

(* the hypotheses of rec_remove_exact hold on this table *)
Example ex_remove_hyps :
  recursive_path true "t/dir1/..." = ("t/dir1", true) ∧ t_path ex_W !! "t/dir1" = Some 2 ∧
  (w_rec <$> t_wd ex_W !! 2) = Some true.
Proof. vm_compute. repeat split; reflexivity. Qed.

(* renaming t/dir1 to t/mv moves t/dir1 and t/dir1/sub, and leaves t/dir10 alone *)
Example ex_rewrite :
  let W' := rewrite_paths ex_W 1 "t/dir1" "t/mv" in
  (λ x, (x.1, w_path x.2)) <$> map_to_list (t_wd W')
    = [(1, "t"); (3, "t/dir10"); (5, "t2"); (2, "t/mv"); (4, "t/mv/sub")]
  ∧ map_to_list (t_path W') = [("t", 1); ("t2", 5); ("t/dir10", 3); ("t/mv", 2); ("t/mv/sub", 4)].
Proof. vm_compute. repeat split; reflexivity. Qed.

(* a directory created under the recursive watch on "t" is registered under its true name *)
Example ex_deliver_create :
  let K := mkK (list_to_map [(1, 101); (2, 102); (3, 103); (4, 104); (5, 105)]) 6 [] in
  let x := mkWatch 1 0 "t" true in
  let r := mkRaw 1 (N.lor IN_CREATE IN_ISDIR) 0 16 "new" in
  let '(W', K', outs) := deliver "/" ex_W K [("/t/new", 106)] x r "t/new" [] None in
  outs = [OEv "t/new" Create ""]
  ∧ t_path W' !! "t/new" = Some 6
  ∧ t_wd W' !! 6 = Some (mkWatch 6 0 "t/new" true)
  ∧ marks K' !! 6 = Some 106.
Proof. vm_compute. repeat split; reflexivity. Qed.

(* t/dir1 is renamed to t/mv: the watches 2 and 4 follow, t/dir10 (wd 3) is left alone *)
Example ex_deliver_rename :
  let K := mkK (list_to_map [(1, 101); (2, 102); (3, 103); (4, 104); (5, 105)]) 6 [] in
  let x := mkWatch 1 0 "t" true in
  let r := mkRaw 1 (N.lor IN_MOVED_TO IN_ISDIR) 77 16 "mv" in
  let W := mkW (t_wd ex_W) (t_path ex_W) (ring_store init_ring 77 "t/dir1") in
  let '(W', K', outs) := deliver "/" W K [("/t/mv", 102)] x r "t/mv" [] None in
  outs = [OEv "t/mv" Create "t/dir1"]
  ∧ (λ x, (x.1, w_path x.2)) <$> map_to_list (t_wd W')
    = [(1, "t"); (3, "t/dir10"); (5, "t2"); (2, "t/mv"); (4, "t/mv/sub")]
  ∧ marks K' = marks K.
Proof. vm_compute. repeat split; reflexivity. Qed.

Print Assumptions rec_remove_exact.
Print Assumptions rewrite_paths_exact.
Print Assumptions rec_new_dir_registered.
Print Assumptions rec_event_named_under_watch_path.
Print Assumptions rekey_paths_index.
