(* kqdriver — replays kq history files (one step per line; the harness appended its observations after "=>")
   on the extracted model (Kqmodel) and
     - compares the projected observables:  C17 = ledger / infrastructure / WatchList / table sizes,
                                            C18 = the event stream (name, op);
       everything else (results, error counts) only counts towards full agreement,
       the environment (filesystem tree, registrations, pending count) is cross-checked separately;
     - evaluates the extracted specification-level predicates on the IMPLEMENTATION's observations.
   usage: kqdriver [-cfg repo|before-fix] file      (repo = the tree as checked in, with the three repairs) *)
open Kqmodel

let explode s = List.init (String.length s) (String.get s)
let implode l = String.concat "" (List.map (String.make 1) l)

let rec pos_of_int i = if i = 1 then XH else if i land 1 = 1 then XI (pos_of_int (i lsr 1)) else XO (pos_of_int (i lsr 1))
let n_of_int i = if i = 0 then N0 else Npos (pos_of_int i)
let rec int_of_pos = function XH -> 1 | XO p -> 2 * int_of_pos p | XI p -> 2 * int_of_pos p + 1
let int_of_n = function N0 -> 0 | Npos p -> int_of_pos p
let rec int_of_nat = function O -> 0 | S n -> 1 + int_of_nat n
let rec nat_of_int i = if i <= 0 then O else S (nat_of_int (i - 1))

let split_on c s = String.split_on_char c s
let words s = List.filter (fun w -> w <> "") (split_on ' ' (String.trim s))

(* "k=[a,b]" fields of the observation text *)
let field obs key =
  let pat = " " ^ key ^ "=" in
  let obs = " " ^ obs in
  let n = String.length pat in
  let rec find i = if i + n > String.length obs then None else if String.sub obs i n = pat then Some (i + n) else find (i + 1) in
  match find 0 with
  | None -> None
  | Some i ->
      if i < String.length obs && obs.[i] = '[' then begin
        let j = try String.index_from obs i ']' with Not_found -> String.length obs - 1 in
        Some (String.sub obs (i + 1) (j - i - 1))
      end else begin
        let j = try String.index_from obs i ' ' with Not_found -> String.length obs in
        Some (String.sub obs i (j - i))
      end

let list_field obs key = match field obs key with None | Some "" -> [] | Some s -> split_on ',' s

let op_bits s =
  List.fold_left (fun a o -> a lor (match o with "CREATE" -> 1 | "WRITE" -> 2 | "REMOVE" -> 4 | "RENAME" -> 8 | "CHMOD" -> 16 | _ -> 0)) 0 (split_on '|' s)

let op_text b =
  let l = List.filter_map (fun (m, n) -> if b land m <> 0 then Some n else None)
            [ (1, "CREATE"); (4, "REMOVE"); (2, "WRITE"); (8, "RENAME"); (16, "CHMOD") ] in
  if l = [] then "0" else String.concat "|" l

let parse_event s =
  let i = String.index s ':' in
  { e_name = explode (String.sub s (i + 1) (String.length s - i - 1)); e_op = n_of_int (op_bits (String.sub s 0 i)) }

let show_event e = op_text (int_of_n e.e_op) ^ ":" ^ implode e.e_name

let parse_fsop (w : string list) : fsop option =
  let e = explode in
  match w with
  | [ "create"; p ] -> Some (OCreate (e p))
  | [ "write"; p ] -> Some (OWrite (e p))
  | [ "trunc"; p ] -> Some (OTrunc (e p))
  | [ "chmod"; p ] -> Some (OChmod (e p))
  | [ "unlink"; p ] -> Some (OUnlink (e p))
  | [ "mkdir"; p ] -> Some (OMkdir (e p))
  | [ "rmdir"; p ] -> Some (ORmdir (e p))
  | [ "mkfifo"; p ] -> Some (OMkfifo (e p))
  | [ "symlink"; t; p ] -> Some (OSymlink (e t, e p))
  | [ "link"; s; p ] -> Some (OLink (e s, e p))
  | [ "rename"; s; d ] -> Some (ORename (e s, e d))
  | _ -> None

let parse_step (w : string list) : step option =
  let e = explode in
  let a s = if s = "\"\"" then "" else s in
  match w with
  | "racecl" :: r -> (match parse_fsop r with Some o -> Some (SCloseRace o) | None -> None)
  | [ "fs"; "create"; p ] -> Some (SFs (OCreate (e p)))
  | [ "fs"; "write"; p ] -> Some (SFs (OWrite (e p)))
  | [ "fs"; "trunc"; p ] -> Some (SFs (OTrunc (e p)))
  | [ "fs"; "chmod"; p ] -> Some (SFs (OChmod (e p)))
  | [ "fs"; "unlink"; p ] -> Some (SFs (OUnlink (e p)))
  | [ "fs"; "mkdir"; p ] -> Some (SFs (OMkdir (e p)))
  | [ "fs"; "rmdir"; p ] -> Some (SFs (ORmdir (e p)))
  | [ "fs"; "mkfifo"; p ] -> Some (SFs (OMkfifo (e p)))
  | [ "fs"; "symlink"; t; p ] -> Some (SFs (OSymlink (e t, e p)))
  | [ "fs"; "link"; s; p ] -> Some (SFs (OLink (e s, e p)))
  | [ "fs"; "rename"; s; d ] -> Some (SFs (ORename (e s, e d)))
  | [ "api"; "add"; p ] -> Some (SAdd (e (a p)))
  | [ "api"; "add" ] -> Some (SAdd [])
  | [ "api"; "remove"; p ] -> Some (SRemove (e (a p)))
  | [ "api"; "remove" ] -> Some (SRemove [])
  | [ "api"; "list" ] -> Some SList
  | [ "api"; "close" ] -> Some SClose
  | [ "hold" ] -> Some SHold
  | [ "release" ] -> Some SRelease
  | _ -> None

let parse_obs (o : string) : obs =
  let res = match field o "res" with Some r -> r | None -> "?" in
  let led = List.filter (fun x -> x <> "kq" && x <> "pr" && x <> "pw") (list_field o "led") in
  let infra = list_field o "led" in
  let sz = match field o "sizes" with Some s -> List.map int_of_string (split_on ',' s) | None -> [ 0; 0; 0; 0; 0 ] in
  let n i = n_of_int (List.nth sz i) in
  { ob_ok = (res = "ok" || res = "nil");
    ob_evs = List.map parse_event (list_field o "ev");
    ob_nerr = nat_of_int (List.length (list_field o "er"));
    ob_list = List.map explode (list_field o "list");
    ob_led = List.map (fun x ->
                 let i = String.index x ':' in
                 let p = String.sub x (i + 1) (String.length x - i - 1) in
                 let dead = String.length p > 0 && p.[String.length p - 1] = '!' in
                 let p = if dead then String.sub p 0 (String.length p - 1) else p in
                 ((n_of_int (int_of_string (String.sub x 0 i)), explode p), dead)) led;
    ob_infra = ((List.mem "kq" infra, List.mem "pr" infra), List.mem "pw" infra);
    ob_sizes = ((((n 0, n 1), n 2), n 3), n 4) }

let show_led l = String.concat "," (List.map (fun ((fd, p), _) -> string_of_int (int_of_n fd) ^ ":" ^ implode p) l)
let show_infra ((a, b), c) = (if a then "kq " else "") ^ (if b then "pr " else "") ^ if c then "pw" else ""
let show_sizes ((((a, b), c), d), e) = String.concat "," (List.map (fun x -> string_of_int (int_of_n x)) [ a; b; c; d; e ])
let show_list l = String.concat "," (List.map implode l)
let show_evs l = String.concat "," (List.map show_event l)

let show_tree t =
  String.concat ","
    (List.map (fun ((p, k), nl) ->
         implode p ^ match k with KFile -> ":f" ^ string_of_int (int_of_nat nl) | KDir -> ":d" | KFifo -> ":p" | KLink t -> ":l:" ^ implode t) t)

let show_regs r = String.concat "," (List.map (fun (fd, fl) -> Printf.sprintf "%d:%x" (int_of_n fd) (int_of_n fl)) r)

let err_class = function
  | ErrClosed -> "ErrClosed" | ErrNonExistentWatch -> "ErrNonExistentWatch" | ErrFuel -> "FUEL"
  | EOs ENOENT -> "ENOENT" | EOs ENOTDIR -> "ENOTDIR" | EOs ELOOP -> "ELOOP" | EOs EACCES -> "EACCES" | EOs _ -> "other"

let c17_clauses = [ "close-releases-all"; "watchlist-user-only"; "removed-not-listed"; "remove-of-added-fails";
                    "deleted-file-descriptor-open"; "all-removed-empty"; "unaccounted-descriptor"; "remove-of-unadded-succeeds" ]

let () =
  let cfg = ref kq_cfg_repo in
  let file = ref "" in
  let rec args = function
    | "-cfg" :: "before-fix" :: r -> cfg := kq_cfg_before_fix; args r
    | "-cfg" :: _ :: r -> args r
    | f :: r -> file := f; args r
    | [] -> () in
  args (List.tl (Array.to_list Sys.argv));
  let ic = open_in !file in
  let st = ref kq_st_init and sp = ref kq_sp_init and spm = ref kq_sp_init in
  let hist = ref "" and stepno = ref 0 in
  let histories = ref 0 and steps = ref 0 in
  let mm17 = ref 0 and mm18 = ref 0 and mmfull = ref 0 and mmenv = ref 0 and sp17 = ref 0 and sp18 = ref 0 and bad = ref 0 in
  let agree_full = ref 0 in
  let hist_bad = ref false and hist_env = ref false and hist_stuck = ref false in
  let close_hist () =
    if !hist <> "" then Printf.printf "HIST %s steps=%d %s%s\n" !hist !stepno (if !hist_bad then "DIVERGES" else "agrees") (if !hist_env then " ENV" else "") in
  (try
     while true do
       let line = input_line ic in
       let line = String.trim line in
       if line = "" || line.[0] = '#' then ()
       else begin
         let stepS, obsS =
           let rec find i = if i + 2 > String.length line then -1 else if line.[i] = '=' && line.[i + 1] = '>' then i else find (i + 1) in
           match find 0 with
           | -1 -> (line, "")
           | i -> (String.trim (String.sub line 0 i), String.trim (String.sub line (i + 2) (String.length line - i - 2))) in
         let w = words stepS in
         match w with
         | "H" :: id :: _ ->
             close_hist ();
             hist := id; stepno := 0; st := kq_st_init; sp := kq_sp_init; spm := kq_sp_init; hist_bad := false; hist_env := false; hist_stuck := false;
             incr histories
         | "E" :: _ -> ()
         | _ -> (
             match parse_step w with
             | None -> incr bad; Printf.printf "BAD hist=%s line=%s\n" !hist stepS
             | Some _ when !hist_stuck -> ()
             | Some _ when obsS = "res=reader-stuck" ->
                 incr stepno; hist_stuck := true; incr sp18;
                 Printf.printf "MISMATCH SPEC C18 hist=%s step=%d clause=reader-blocked detail=[the reader neither went idle nor exited] at: %s\n" !hist !stepno stepS
             | Some x ->
                 incr stepno; incr steps;
                 let impl = parse_obs obsS in
                 let st', mo = kq_model_obs !cfg !st x in
                 let ok = ref true in
                 let mism prop fld m i =
                   ok := false; hist_bad := true;
                   (match prop with "C17" -> incr mm17 | "C18" -> incr mm18 | _ -> incr mmfull);
                   Printf.printf "MISMATCH MODEL %s hist=%s step=%d field=%s model=[%s] impl=[%s] at: %s\n" prop !hist !stepno fld m i stepS in
                 (* C17 projection *)
                 if show_led mo.ob_led <> show_led impl.ob_led then mism "C17" "ledger" (show_led mo.ob_led) (show_led impl.ob_led);
                 if mo.ob_infra <> impl.ob_infra then mism "C17" "infra" (show_infra mo.ob_infra) (show_infra impl.ob_infra);
                 if mo.ob_list <> impl.ob_list then mism "C17" "watchlist" (show_list mo.ob_list) (show_list impl.ob_list);
                 if mo.ob_sizes <> impl.ob_sizes then mism "C17" "sizes" (show_sizes mo.ob_sizes) (show_sizes impl.ob_sizes);
                 (* C18 projection; a Close racing with the reader leaves it to the select in sendEvent which events get through *)
                 let racing = (match x with SCloseRace _ -> true | _ -> false) in
                 if (not racing) && show_evs mo.ob_evs <> show_evs impl.ob_evs then mism "C18" "events" (show_evs mo.ob_evs) (show_evs impl.ob_evs);
                 (* the rest *)
                 (match x with
                  | SFs _ | SCloseRace _ -> ()
                  | _ ->
                      if mo.ob_ok <> impl.ob_ok then
                        mism "FULL" "result" (if mo.ob_ok then "nil" else "error") (match field obsS "res" with Some r -> r | None -> "?"));
                 if (not racing) && int_of_nat mo.ob_nerr <> int_of_nat impl.ob_nerr then
                   mism "FULL" "errors" (string_of_int (int_of_nat mo.ob_nerr)) (String.concat "," (list_field obsS "er"));
                 if !ok then incr agree_full;
                 (* environment cross-check: filesystem model, registrations, pending count *)
                 let env fld m i =
                   incr mmenv; hist_env := true;
                   Printf.printf "MISMATCH ENV hist=%s step=%d field=%s model=[%s] impl=[%s] at: %s\n" !hist !stepno fld m i stepS in
                 (match x with
                  | SFs _ | SCloseRace _ ->
                      if mo.ob_ok <> impl.ob_ok then env "fsres" (string_of_bool mo.ob_ok) (string_of_bool impl.ob_ok);
                      (match field obsS "tree" with
                       | Some t -> if show_tree (kq_tree st') <> t then env "tree" (show_tree (kq_tree st')) t
                       | None -> ())
                  | _ -> ());
                 (match field obsS "regs" with
                  | Some r -> if show_regs (kq_regs st') <> r then env "regs" (show_regs (kq_regs st')) r
                  | None -> ());
                 (match field obsS "pend" with
                  | Some p -> if string_of_int (int_of_nat (kq_pending st')) <> p then env "pend" (string_of_int (int_of_nat (kq_pending st'))) p
                  | None -> ());
                 st := st';
                 (* specification on the implementation's own observations *)
                 let sp', viols = kq_spec_step !sp x impl in
                 sp := sp';
                 List.iter (fun (cl, detail) ->
                     let cl = implode cl in
                     let prop = if List.mem cl c17_clauses then (incr sp17; "C17") else (incr sp18; "C18") in
                     Printf.printf "MISMATCH SPEC %s hist=%s step=%d clause=%s detail=[%s] at: %s\n" prop !hist !stepno cl (implode detail) stepS)
                   viols;
                 (* the same predicates on the MODEL's predicted observations: what the faithful model (known defects
                    included) exhibits itself; a violation of the implementation that is not among these is new *)
                 let spm', mviols = kq_spec_step !spm x mo in
                 spm := spm';
                 List.iter (fun (cl, detail) ->
                     Printf.printf "MSPEC hist=%s step=%d clause=%s detail=[%s]\n" !hist !stepno (implode cl) (implode detail))
                   mviols)
       end
     done
   with End_of_file -> ());
  close_hist ();
  Printf.printf "SUMMARY histories=%d steps=%d agree_full=%d model_mismatch_c17=%d model_mismatch_c18=%d model_mismatch_other=%d env_mismatch=%d spec_c17=%d spec_c18=%d bad_lines=%d\n"
    !histories !steps !agree_full !mm17 !mm18 !mmfull !mmenv !sp17 !sp18 !bad
