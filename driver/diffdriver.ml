(* diffdriver — replays the cases recorded by harness/diffgen against the extracted model (C20).
   For every case:
     MODEL: the output of the real ztest.Diff / the emptiness of ztest.DiffMatch is compared with the
            extracted executable model (exact strings)                      -> is the model the code?
     SPEC:  the clauses of C20, extracted from their Coq definitions, are evaluated on the
            IMPLEMENTATION's own output (the model is not consulted)        -> does the property hold here?
   usage: diffdriver [-v] cases.txt        (-v: print outputs and verdicts of every case; used by --replay) *)
open Diffmodel

let rec nat_of_int n = if n <= 0 then O else S (nat_of_int (n - 1))
let rec int_of_nat = function O -> 0 | S n -> 1 + int_of_nat n

let chars_of_string s = List.init (String.length s) (String.get s)
let string_of_chars l = let b = Buffer.create 64 in List.iter (Buffer.add_char b) l; Buffer.contents b
let unhex s = if s = "-" then "" else
  String.init (String.length s / 2) (fun i -> Char.chr (int_of_string ("0x" ^ String.sub s (2*i) 2)))
let hex s = if s = "" then "-" else
  let b = Buffer.create (2 * String.length s) in
  String.iter (fun c -> Buffer.add_string b (Printf.sprintf "%02x" (Char.code c))) s; Buffer.contents b

let verbose = ref false
let total = ref 0 and model_bad = ref 0 and spec_bad = ref 0
let counts : (string, int) Hashtbl.t = Hashtbl.create 16
let bump k = Hashtbl.replace counts k (1 + try Hashtbl.find counts k with Not_found -> 0)
let shown : (string, int) Hashtbl.t = Hashtbl.create 16
let seen : (string, unit) Hashtbl.t = Hashtbl.create 100000

let report kind clause rest =
  (if kind = "MODEL" then incr model_bad else incr spec_bad);
  bump ("mismatch." ^ kind ^ "." ^ clause);
  let k = kind ^ clause in
  let n = (try Hashtbl.find shown k with Not_found -> 0) in
  Hashtbl.replace shown k (n + 1);
  if n < 5 then Printf.printf "MISMATCH %s %s %s\n" kind clause rest

let bound_of kind rest =
  (* rest: "" | "=n" | ">n" | ":n:m" *)
  let n s = nat_of_int (int_of_string s) in
  let b =
    if rest = "" then BPlus
    else match rest.[0], String.split_on_char ':' (String.sub rest 1 (String.length rest - 1)) with
      | '=', [x] -> BExact (n x)
      | '>', [x] -> BAtLeast (n x)
      | ':', [x; y] -> BBetween (n x, n y)
      | _ -> failwith ("bad bound " ^ rest) in
  if kind = 'A' then Any b else Number b

let item_of s =
  match s.[0] with
  | 'L' -> Lit (chars_of_string (unhex (String.sub s 1 (String.length s - 1))))
  | 'U' -> Uuid
  | ('A' | 'N') as k -> bound_of k (String.sub s 1 (String.length s - 1))
  | _ -> failwith ("bad item " ^ s)

let items_of s = if s = "-" then [] else List.map item_of (String.split_on_char ',' s)

let verdict name b = if !verbose then Printf.printf "  predicate %-12s %s\n" name (if b then "holds" else "FAILS")

let show_text label s =
  Printf.printf "  %s (%d bytes): %S\n" label (String.length s) s

let rec case_diff gen have_h want_h out_h =
  if String.length out_h > 0 && out_h.[0] = 'P' then begin
    bump ("cases." ^ gen);
    let msg = unhex (String.sub out_h 1 (String.length out_h - 1)) in
    if !verbose then begin
      Printf.printf "CASE D %s\n" gen; show_text "have" (unhex have_h); show_text "want" (unhex want_h);
      Printf.printf "  implementation: Diff PANICKED: %s\n" msg;
      (match m_diff (chars_of_string (unhex have_h)) (chars_of_string (unhex want_h)) with
       | Some m -> show_text "model output" (string_of_chars m) | None -> ());
      Printf.printf "  predicate %-12s FAILS\n" "returns"
    end;
    report "SPEC" "diff-panic" (Printf.sprintf "gen=%s have=%s want=%s panic=%s" gen have_h want_h (hex msg))
  end else case_diff_ok gen have_h want_h out_h

and case_diff_ok gen have_h want_h out_h =
  let have = unhex have_h and want = unhex want_h and out = unhex out_h in
  bump ("cases." ^ gen);
  let key = "D" ^ have_h ^ " " ^ want_h in
  if not (Hashtbl.mem seen key) then begin
    Hashtbl.add seen key ();
    bump "distinct.diff";
    if out <> "" then bump "distinct_nontrivial.diff"
  end;
  let inp = Printf.sprintf "gen=%s have=%s want=%s out=%s" gen have_h want_h out_h in
  let hc = chars_of_string have and wc = chars_of_string want and oc = chars_of_string out in
  if !verbose then begin
    Printf.printf "CASE D %s\n" gen; show_text "have" have; show_text "want" want; show_text "implementation output" out
  end;
  (* (a) model *)
  (match m_diff hc wc with
   | None -> report "MODEL" "fuel" inp
   | Some m ->
     let m = string_of_chars m in
     if !verbose then show_text "model output" m;
     if m <> out then report "MODEL" "diff" (inp ^ " model=" ^ hex m));
  (* (b) specification clauses on the implementation's output *)
  let e = s_empty_iff hc wc oc in
  verdict "empty-iff" e;
  if not e then report "SPEC" "empty-iff" inp;
  if out <> "" then begin
    match s_parse oc with
    | None -> verdict "format" false; report "SPEC" "format" inp
    | Some hs ->
      verdict "format" true;
      bump ("hunks." ^ (let n = List.length hs in if n >= 4 then "4+" else string_of_int n));
      let p = s_patch hc wc hs in verdict "patch" p; if not p then report "SPEC" "patch" inp;
      let h = s_headers hs in verdict "headers" h; if not h then report "SPEC" "headers" inp;
      let c = s_context hs in verdict "context" c; if not c then report "SPEC" "context" inp;
      let g = s_changes hs in verdict "changes" g; if not g then report "SPEC" "changes" inp
  end

let case_match have_h items_s want_h res =
  let have = unhex have_h and want = unhex want_h in
  bump "cases.match";
  let key = "M" ^ have_h ^ " " ^ want_h in
  if not (Hashtbl.mem seen key) then begin
    Hashtbl.add seen key ();
    bump "distinct.match";
    if String.length items_s > 0 && (String.contains items_s 'A' || String.contains items_s 'N' || String.contains items_s 'U')
    then bump "distinct_nontrivial.match"
  end;
  let inp = Printf.sprintf "have=%s items=%s want=%s result=%s" have_h items_s want_h res in
  let items = items_of items_s in
  let rendered = string_of_chars (m_render_items items) in
  if !verbose then begin
    Printf.printf "CASE M\n"; show_text "have" have; show_text "want" want;
    Printf.printf "  implementation: DiffMatch %s\n" (match res with "1" -> "returned \"\"" | "0" -> "returned a diff" | _ -> "panicked")
  end;
  if rendered <> want then report "MODEL" "render-items" (inp ^ " rendered=" ^ hex rendered);
  let m = m_diffmatch_empty (chars_of_string have) items in
  if !verbose then Printf.printf "  model: matches = %b\n" m;
  bump (if m then "match.model_true" else "match.model_false");
  (* the matcher is proved equivalent to the Matches semantics (diffmatch_empty_iff), so a disagreement
     is a failure of the clause on this input *)
  match res with
  | "P" -> verdict "diffmatch" false; report "SPEC" "diffmatch-panic" inp
  | _ ->
    let ok = (res = "1") = m in
    verdict "diffmatch" ok;
    if not ok then report "SPEC" "diffmatch" (inp ^ " expected_empty=" ^ string_of_bool m)

(* ---------- the inner functions ---------- *)
let split_char c s = if s = "" then [] else String.split_on_char c s

let lines_of_enc e =
  (* <n>:<hex of the lines joined by newline>; every line gets its newline back *)
  let i = String.index e ':' in
  let n = int_of_string (String.sub e 0 i) in
  if n = 0 then [] else
    List.map (fun l -> chars_of_string (l ^ "\n")) (String.split_on_char '\n' (unhex (String.sub e (i + 1) (String.length e - i - 1))))

let ints_of s = List.map int_of_string (String.split_on_char '.' s)
let blocks_of s = List.map (fun t -> match ints_of t with [a; b; k] -> ((nat_of_int a, nat_of_int b), nat_of_int k) | _ -> failwith "block") (split_char ';' s)
let code_of t =
  match String.split_on_char '.' t with
  | [tg; a; b; c; d] ->
    let tag = (match tg with "r" -> TR | "d" -> TD | "i" -> TI | "e" -> TE | _ -> failwith ("tag " ^ tg)) in
    { oTag = tag; oI1 = nat_of_int (int_of_string a); oI2 = nat_of_int (int_of_string b);
      oJ1 = nat_of_int (int_of_string c); oJ2 = nat_of_int (int_of_string d) }
  | _ -> failwith "opcode"
let codes_of s = if s = "-" then [] else List.map code_of (String.split_on_char ';' s)
let groups_of s = if s = "-" then [] else List.map codes_of (String.split_on_char '|' s)

let show_block ((a, b), k) = Printf.sprintf "%d.%d.%d" (int_of_nat a) (int_of_nat b) (int_of_nat k)
let show_code c = Printf.sprintf "%s.%d.%d.%d.%d" (match c.oTag with TR -> "r" | TD -> "d" | TI -> "i" | TE -> "e")
    (int_of_nat c.oI1) (int_of_nat c.oI2) (int_of_nat c.oJ1) (int_of_nat c.oJ2)
let show_codes cs = if cs = [] then "-" else String.concat ";" (List.map show_code cs)
let show_groups gs = if gs = [] then "-" else String.concat "|" (List.map show_codes gs)

let case_format a b out_h =
  bump "cases.fn.format_range";
  let m = string_of_chars (m_format_range (nat_of_int (int_of_string a)) (nat_of_int (int_of_string b))) in
  if !verbose then Printf.printf "CASE F formatRangeUnified(%s, %s): implementation %S, model %S\n" a b (unhex out_h) m;
  if m <> unhex out_h then report "MODEL" "format-range" (Printf.sprintf "start=%s stop=%s out=%s model=%s" a b out_h (hex m))

let case_split text_h pieces =
  bump "cases.fn.split_lines";
  let m = String.concat "," (List.map (fun l -> hex (string_of_chars l)) (m_split_lines (chars_of_string (unhex text_h)))) in
  if !verbose then Printf.printf "CASE S splitLines(%S): implementation %s, model %s\n" (unhex text_h) pieces m;
  if m <> pieces then report "MODEL" "split-lines" (Printf.sprintf "text=%s out=%s model=%s" text_h pieces m)

let case_flm ea eb alo ahi blo bhi res =
  bump "cases.fn.flm";
  let inp = Printf.sprintf "A=%s B=%s alo=%s ahi=%s blo=%s bhi=%s result=%s" ea eb alo ahi blo bhi (String.concat "." res) in
  match res with
  | [p] when String.length p > 0 && p.[0] = 'P' -> verdict "returns" false; report "SPEC" "flm-panic" inp
  | [ra; rb; rk] ->
    let a = lines_of_enc ea and b = lines_of_enc eb in
    let n s = nat_of_int (int_of_string s) in
    let im = ((n ra, n rb), n rk) in
    let mm = m_flm a b (n alo) (n ahi) (n blo) (n bhi) in
    if !verbose then Printf.printf "CASE G findLongestMatch %s: implementation %s, model %s\n" inp (show_block im) (show_block mm);
    if show_block im <> show_block mm then report "MODEL" "flm" (inp ^ " model=" ^ show_block mm);
    let ok = s_flm_ok a b (n alo) (n ahi) (n blo) (n bhi) im in
    verdict "flm-sound" ok; if not ok then report "SPEC" "flm-sound" inp;
    let mx = s_flm_max a b (n alo) (n ahi) (n blo) (n bhi) im in
    verdict "flm-maximal" mx; if not mx then report "SPEC" "flm-maximal" inp;
    let fs = s_flm_first a b (n alo) (n ahi) (n blo) (n bhi) im in
    verdict "flm-earliest" fs; if not fs then report "SPEC" "flm-earliest" inp
  | _ -> ()

let case_lists gen ea eb rest =
  bump ("cases.fn." ^ gen);
  let key = "B" ^ ea ^ " " ^ eb in
  if not (Hashtbl.mem seen key) then begin
    Hashtbl.add seen key (); bump "distinct.lists";
    if ea <> eb then bump "distinct_nontrivial.lists"
  end;
  let inp0 = Printf.sprintf "gen=%s A=%s B=%s" gen ea eb in
  match rest with
  | [p] when String.length p > 0 && p.[0] = 'P' ->
    verdict "returns" false; report "SPEC" "lists-panic" (inp0 ^ " panic=" ^ String.sub p 1 (String.length p - 1))
  | [bl; ops; grp; out_h] ->
    let a = lines_of_enc ea and b = lines_of_enc eb in
    let inp = Printf.sprintf "%s blocks=%s opcodes=%s groups=%s out=%s" inp0 bl ops grp out_h in
    if !verbose then Printf.printf "CASE B %s\n  implementation: blocks %s\n    opcodes %s\n    groups %s\n" inp0 bl ops grp;
    (* model *)
    (match m_blocks a b with
     | None -> report "MODEL" "fuel" inp
     | Some ms -> let m = String.concat ";" (List.map show_block ms) in
       if !verbose then Printf.printf "  model: blocks %s\n" m;
       if m <> bl then report "MODEL" "blocks" (inp ^ " model=" ^ m));
    (match m_opcodes a b with
     | None -> ()
     | Some cs -> if !verbose then Printf.printf "    opcodes %s\n" (show_codes cs);
       if show_codes cs <> ops then report "MODEL" "opcodes" (inp ^ " model=" ^ show_codes cs));
    (match m_groups a b with
     | None -> ()
     | Some gs -> if !verbose then Printf.printf "    groups %s\n" (show_groups gs);
       if show_groups gs <> grp then report "MODEL" "groups" (inp ^ " model=" ^ show_groups gs));
    let out = unhex out_h in
    (match m_diff_lines a b with
     | None -> ()
     | Some m -> let m = string_of_chars m in
       if !verbose then (show_text "implementation makeUnifiedDiff" out; show_text "model makeUnifiedDiff" m);
       if m <> out then report "MODEL" "unified" (inp ^ " model=" ^ hex m));
    (* contracts on the implementation's own results *)
    let okb = (try s_blocks_ok a b (blocks_of bl) with _ -> false) in
    verdict "blocks" okb; if not okb then report "SPEC" "blocks" inp;
    let okt = (try s_tiles_ok a b (codes_of ops) with _ -> false) in
    verdict "opcodes-tile" okt; if not okt then report "SPEC" "opcodes-tile" inp;
    let oc = chars_of_string out in
    let e = s_empty_iff_lines a b oc in
    verdict "empty-iff" e; if not e then report "SPEC" "lists-empty-iff" inp;
    if out <> "" then begin
      match s_parse ('\n' :: oc) with
      | None -> verdict "format" false; report "SPEC" "lists-format" inp
      | Some hs ->
        verdict "format" true;
        let p = s_patch_lines a b hs in verdict "patch" p; if not p then report "SPEC" "lists-patch" inp;
        let h = s_headers hs in verdict "headers" h; if not h then report "SPEC" "lists-headers" inp;
        let c = s_context hs in verdict "context" c; if not c then report "SPEC" "lists-context" inp
    end
  | _ -> ()

let () =
  let files = ref [] in
  Array.iteri (fun i a -> if i > 0 then (if a = "-v" then verbose := true else files := a :: !files)) Sys.argv;
  let ic = match !files with f :: _ -> open_in f | [] -> stdin in
  (try while true do
    let line = input_line ic in
    let f = String.split_on_char ' ' line in
    (match f with
     | ["D"; gen; have; want; out] -> incr total; case_diff gen have want out
     | ["M"; have; items; want; res] -> incr total; case_match have items want res
     | ["F"; a; b; out] -> incr total; case_format a b out
     | ["S"; text; pieces] -> incr total; case_split text pieces
     | "G" :: ea :: eb :: alo :: ahi :: blo :: bhi :: res -> incr total; case_flm ea eb alo ahi blo bhi res
     | "B" :: gen :: ea :: eb :: rest -> incr total; case_lists gen ea eb rest
     | _ -> ())
  done with End_of_file -> ());
  let ks = List.sort compare (Hashtbl.fold (fun k v acc -> (k, v) :: acc) counts []) in
  List.iter (fun (k, v) -> Printf.printf "COUNT %s %d\n" k v) ks;
  Printf.printf "SUMMARY total=%d model_mismatch=%d spec_mismatch=%d\n" !total !model_bad !spec_bad
