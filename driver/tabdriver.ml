(* tabdriver — replays the observations of harness/cmd/tab against the extracted model.
   Two comparisons per observation:
     GEN: implementation vs the model generated from the source (is the translator faithful?)
     DOC: implementation vs the documented specification (does the property hold on this input?)   *)
open Tabmodel

let rec pos_of_int n = if n = 1 then XH else if n land 1 = 0 then XO (pos_of_int (n lsr 1)) else XI (pos_of_int (n lsr 1))
let n_of_int n = if n = 0 then N0 else Npos (pos_of_int n)
let rec int_of_pos = function XH -> 1 | XO p -> 2 * int_of_pos p | XI p -> 2 * int_of_pos p + 1
let int_of_n = function N0 -> 0 | Npos p -> int_of_pos p

let chars_of_string s = List.init (String.length s) (String.get s)
let string_of_chars l = String.init (List.length l) (List.nth l)
let string_of_chars l = let b = Buffer.create 16 in List.iter (Buffer.add_char b) l; Buffer.contents b
let unhex s = if s = "-" then "" else
  String.init (String.length s / 2) (fun i -> Char.chr (int_of_string ("0x" ^ String.sub s (2*i) 2)))
let hex s = if s = "" then "-" else String.concat "" (List.map (fun c -> Printf.sprintf "%02x" (Char.code c)) (chars_of_string s))

let gen_bad = ref 0 and doc_bad = ref 0 and total = ref 0
let counts : (string, int) Hashtbl.t = Hashtbl.create 16
let bump k = Hashtbl.replace counts k (1 + try Hashtbl.find counts k with Not_found -> 0)
let shown : (string, int) Hashtbl.t = Hashtbl.create 16
let report kind which input obs exp =
  (if which = "GEN" then incr gen_bad else incr doc_bad);
  let k = which ^ kind in
  let n = (try Hashtbl.find shown k with Not_found -> 0) in
  Hashtbl.replace shown k (n + 1);
  if n < 5 then Printf.printf "MISMATCH %s %s input=%s observed=%s expected=%s\n" which kind input obs exp

let () =
  let ic = if Array.length Sys.argv > 1 then open_in Sys.argv.(1) else stdin in
  (try while true do
    let line = input_line ic in
    let f = String.split_on_char ' ' line in
    incr total;
    (match f with
    | ["newevent"; m; "PANIC"] -> bump "newevent"; report "newevent" "DOC" m "PANIC" "(a value)"
    | ["opstring"; o; "PANIC"] -> bump "opstring"; report "opstring" "DOC" o "PANIC" "(a string)"
    | ["evstring"; nm; op; fr; "PANIC"; _; _] -> bump "evstring"; report "evstring" "DOC" (nm ^ "," ^ op ^ "," ^ fr) "PANIC" "(a string)"
    | ["newevent"; m; op] ->
      bump "newevent";
      let m' = n_of_int (int_of_string m) and op = int_of_string op in
      let g = int_of_n (m_gen_newevent m') and d = int_of_n (m_doc_newevent m') in
      if g <> op then report "newevent" "GEN" m (string_of_int op) (string_of_int g);
      if d <> op then report "newevent" "DOC" m (string_of_int op) (string_of_int d)
    | ["request"; ops; nf; res; mask; followed] ->
      bump "request";
      let inp = int_of_string ops + (if nf = "1" then 1 lsl 32 else 0) in
      let g = int_of_n (m_gen_request (n_of_int inp)) and d = int_of_n (m_doc_request (n_of_int inp)) in
      let kernel_view x = x land 0xfff in
      let dont_follow x = x land 0x2000000 <> 0 in
      let check which x =
        (* flags = 0 is rejected by the kernel (EINVAL); otherwise the mark's mask is flags & IN_ALL_EVENTS
           and the symlink is followed iff IN_DONT_FOLLOW is absent *)
        let exp_res = if x = 0 then "err" else "ok" in
        let exp_f = if x = 0 then "-" else if dont_follow x then "link" else "target" in
        let exp_m = if x = 0 then 0 else kernel_view x in
        if exp_res <> res || exp_m <> int_of_string mask || exp_f <> followed then
          report "request" which (ops ^ "/nofollow=" ^ nf) (res ^ ":" ^ mask ^ ":" ^ followed)
            (exp_res ^ ":" ^ string_of_int exp_m ^ ":" ^ exp_f) in
      check "GEN" g; check "DOC" d
    | ["supports"; ops; r] ->
      bump "supports";
      let g = m_gen_supports (n_of_int (int_of_string ops)) in
      if string_of_bool g <> r then report "supports" "GEN" ops r (string_of_bool g);
      if r <> "true" then report "supports" "DOC" ops r "true"
    | ["defaultops"; v] ->
      bump "defaultops";
      if int_of_n m_gen_default_ops <> int_of_string v then report "defaultops" "GEN" "-" v (string_of_int (int_of_n m_gen_default_ops));
      if int_of_string v <> 31 then report "defaultops" "DOC" "-" v "31"
    | ["opstring"; o; s] ->
      bump "opstring";
      let o' = n_of_int (int_of_string o) and s = unhex s in
      let g = string_of_chars (m_gen_opstring o') and d = string_of_chars (m_doc_opstring o') in
      if g <> s then report "opstring" "GEN" o s g;
      if d <> s then report "opstring" "DOC" o s d
    | ["has"; o; h; r; r2] ->
      bump "has";
      let o' = n_of_int (int_of_string o) and h' = n_of_int (int_of_string h) in
      let g = string_of_bool (m_gen_has o' h') and d = string_of_bool (m_doc_has o' h') in
      if g <> r then report "has" "GEN" (o ^ "," ^ h) r g;
      if d <> r then report "has" "DOC" (o ^ "," ^ h) r d;
      if d <> r2 then report "eventhas" "DOC" (o ^ "," ^ h) r2 d
    | ["evstring"; nm; op; fr; out; qn; qf] ->
      bump "evstring";
      let nm = unhex nm and fr = unhex fr and out = unhex out and qn = unhex qn and qf = unhex qf in
      let d = string_of_chars (m_doc_evstring (chars_of_string qn) (chars_of_string qf) (chars_of_string nm)
                                 (n_of_int (int_of_string op)) (chars_of_string fr)) in
      if d <> out then report "evstring" "DOC" (hex nm ^ "," ^ op ^ "," ^ hex fr) (hex out) (hex d)
    | ["kq_newevent"; m; op] ->
      bump "kq_newevent";
      let m' = n_of_int (int_of_string m) and op = int_of_string op in
      let g = int_of_n (m_gen_kq_newevent m') and d = int_of_n (m_doc_kq_newevent m') in
      if g <> op then report "kq_newevent" "GEN" m (string_of_int op) (string_of_int g);
      if d <> op then report "kq_newevent" "DOC" m (string_of_int op) (string_of_int d)
    | ["win_newevent"; m; op] ->
      bump "win_newevent";
      let m' = n_of_int (int_of_string m) and op = int_of_string op in
      let g = int_of_n (m_gen_win_newevent m') and d = int_of_n (m_doc_win_newevent m') in
      if g <> op then report "win_newevent" "GEN" m (string_of_int op) (string_of_int g);
      if d <> op then report "win_newevent" "DOC" m (string_of_int op) (string_of_int d)
    | ["win_action"; a; v] ->
      bump "win_action";
      let a' = n_of_int (int_of_string a) and v = int_of_string v in
      let g = int_of_n (m_gen_win_actions a') and d = int_of_n (m_doc_win_actions a') in
      if g <> v then report "win_action" "GEN" a (string_of_int v) (string_of_int g);
      if d <> v then report "win_action" "DOC" a (string_of_int v) (string_of_int d)
    | ["win_subscribe"; m; v] ->
      bump "win_subscribe";
      let m' = n_of_int (int_of_string m) and v = int_of_string v in
      let g = int_of_n (m_gen_win_subscribe m') and d = int_of_n (m_doc_win_subscribe m') in
      if g <> v then report "win_subscribe" "GEN" m (string_of_int v) (string_of_int g);
      if d <> v then report "win_subscribe" "DOC" m (string_of_int v) (string_of_int d)
    | _ -> decr total)
  done with End_of_file -> ());
  Hashtbl.iter (fun k v -> Printf.printf "COUNT %s %d\n" k v) counts;
  Printf.printf "SUMMARY total=%d gen_mismatch=%d doc_mismatch=%d\n" !total !gen_bad !doc_bad
