(* inodriver — replays the histories recorded by harness/cmd/ino on the extracted Coq model (Watcher.v / System.v)
   and compares, step by step, what the implementation was observed to do with what the model does.

   Output lines:
     MISMATCH <kind> hist=<id> step=<n> impl=<...> model=<...>      model vs implementation (correspondence)
     SPEC <clause> hist=<id> step=<n> <detail>                      a specification-level predicate evaluated on the
                                                                    implementation's own observations fails
     KERNEL <kind> hist=<id> step=<n> …                             the abstract kernel contract disagrees with the real kernel
     STAT key value                                                 distribution statistics
     SUMMARY …                                                                                                           *)
open Inomodel

let rec pos_of_int n = if n = 1 then XH else if n land 1 = 0 then XO (pos_of_int (n lsr 1)) else XI (pos_of_int (n lsr 1))
let n_of_int n = if n = 0 then N0 else Npos (pos_of_int n)
let rec int_of_pos = function XH -> 1 | XO p -> 2 * int_of_pos p | XI p -> 2 * int_of_pos p + 1
let int_of_n = function N0 -> 0 | Npos p -> int_of_pos p
let chars_of_string s = List.init (String.length s) (String.get s)
let string_of_chars l = let b = Buffer.create 16 in List.iter (Buffer.add_char b) l; Buffer.contents b
let unhex s = if s = "-" then "" else
  String.init (String.length s / 2) (fun i -> Char.chr (int_of_string ("0x" ^ String.sub s (2*i) 2)))
let hex s = if s = "" then "-" else
  let b = Buffer.create 32 in String.iter (fun c -> Buffer.add_string b (Printf.sprintf "%02x" (Char.code c))) s; Buffer.contents b
let split c s = if s = "" || s = "-" then [] else String.split_on_char c s

let stats : (string, int) Hashtbl.t = Hashtbl.create 64
let bump ?(by=1) k = Hashtbl.replace stats k (by + try Hashtbl.find stats k with Not_found -> 0)
let shown : (string, int) Hashtbl.t = Hashtbl.create 64
let mism_hist : (string, (int, unit) Hashtbl.t) Hashtbl.t = Hashtbl.create 64
let note_kind cls kind hist =
  let k = cls ^ " " ^ kind in
  let h = (try Hashtbl.find mism_hist k with Not_found -> let h = Hashtbl.create 8 in Hashtbl.replace mism_hist k h; h) in
  Hashtbl.replace h hist ()
let emit cls kind hist step detail =
  note_kind cls kind hist;
  let k = cls ^ kind in
  let n = (try Hashtbl.find shown k with Not_found -> 0) in
  Hashtbl.replace shown k (n + 1);
  if n < 8 then Printf.printf "%s %s hist=%d step=%d %s\n" cls kind hist step detail

let errno_name = function ENOENT -> "ENOENT" | ENOTDIR -> "ENOTDIR" | ELOOP -> "ELOOP" | ENAMETOOLONG -> "ENAMETOOLONG"
  | EACCES -> "EACCES" | EINVAL -> "EINVAL" | ENOSPC -> "ENOSPC" | EOTHER -> "other"
let errno_of = function "ENOENT" -> ENOENT | "ENOTDIR" -> ENOTDIR | "ELOOP" -> ELOOP | "ENAMETOOLONG" -> ENAMETOOLONG
  | "EACCES" -> EACCES | "EINVAL" -> EINVAL | "ENOSPC" -> ENOSPC | _ -> EOTHER
let err_class = function
  | ErrNonExistentWatch -> "nonexistent" | ErrClosed -> "closed" | ErrEventOverflow -> "overflow"
  | ErrNo e -> errno_name e | ErrRecurseOnNonRecursive -> "recurse-on-nonrecursive" | ErrNotADirectory -> "other"
  | ErrPanic -> "panic"
let result_class = function RNil -> "nil" | RErr e -> err_class e | RList _ -> "list"

let raw_of_fields wd mask cookie len name =
  { r_wd = n_of_int (int_of_string wd); r_mask = n_of_int (int_of_string mask); r_cookie = n_of_int (int_of_string cookie);
    r_len = n_of_int (int_of_string len); r_name = chars_of_string (unhex name) }
let raw_str r = Printf.sprintf "%d/%x/%d/%d/%s" (int_of_n r.r_wd) (int_of_n r.r_mask) (int_of_n r.r_cookie) (int_of_n r.r_len)
  (String.escaped (string_of_chars r.r_name))
let raw_eq a b = a.r_wd = b.r_wd && a.r_mask = b.r_mask && a.r_cookie = b.r_cookie && a.r_len = b.r_len && a.r_name = b.r_name

let bytes_of_hex s = List.init (String.length s / 2) (fun i -> n_of_int (int_of_string ("0x" ^ String.sub s (2*i) 2)))

let parse_res r =
  if r.[0] = 'i' then Inr (n_of_int (int_of_string (String.sub r 1 (String.length r - 1))))
  else Inl (errno_of (String.sub r 1 (String.length r - 1)))
let parse_walk s =
  List.map (fun item ->
    match String.split_on_char ':' item with
    | [p; rf; rn] -> (chars_of_string (unhex p), (parse_res rf, parse_res rn))
    | _ -> (chars_of_string "", (Inl EOTHER, Inl EOTHER))) (split ',' s)

let parse_dirs s =
  List.map (fun item ->
    let i = String.index item ':' in
    (chars_of_string (unhex (String.sub item 0 i)), n_of_int (int_of_string (String.sub item (i+1) (String.length item - i - 1)))))
    (split ',' s)

(* outputs as comparable strings: E:<namehex>:<op>:<fromhex> | X:<class> *)
let out_str = function
  | OEv (n, op, f) -> Printf.sprintf "E:%s:%d:%s" (hex (string_of_chars n)) (int_of_n op) (hex (string_of_chars f))
  | OErr e -> "X:" ^ err_class e

let pretty_out s =
  match String.split_on_char ':' s with
  | ["E"; n; op; f] -> Printf.sprintf "E(%s,%s,%s)" (String.escaped (unhex n)) op (String.escaped (unhex f))
  | _ -> s
let pretty l = "[" ^ String.concat " " (List.map pretty_out l) ^ "]"

let field prefix toks = (* "marks=…" *)
  let pl = String.length prefix in
  let rec go = function [] -> "" | t :: r -> if String.length t >= pl && String.sub t 0 pl = prefix then String.sub t pl (String.length t - pl) else go r in
  go toks

(* ------------------------------------------------------------ one history *)
type hist = {
  id : int; cfg : config; mutable s : sys; mutable stepno : int; mutable confirmed : int; (* kq entries confirmed against the real stream *)
  mutable benign : bool; mutable sentinel : string; mutable prev_tpath : (string * int) list; mutable prev_twd : (int * string) list;
  mutable last_was_process : bool; mutable dead : bool;
  mutable ended_watches : string list;   (* C09 bookkeeping *)
  mutable emitted : (int * int * string) list;          (* every kernel record seen so far: wd, mask, name *)
  mutable stores : (int * string * int) list;           (* move-outs delivered so far: cookie, name, serial *)
  mutable nstores : int;
  mutable overflowed : bool;
}

let split_kinds impl model =
  (* classify a difference between two output lists *)
  let evs l = List.filter (fun s -> s.[0] = 'E') l and ers l = List.filter (fun s -> s.[0] = 'X') l in
  let key s = match String.split_on_char ':' s with ["E"; n; op; _] -> n ^ ":" ^ op | _ -> s in
  let kinds = ref [] in
  if ers impl <> ers model then kinds := "errors" :: !kinds;
  let ie = evs impl and me = evs model in
  if ie <> me then begin
    let sk l = List.sort compare (List.map key l) in
    if sk ie = sk me then begin
      if List.map key ie <> List.map key me then kinds := "order" :: !kinds
      else kinds := "from" :: !kinds
    end else begin
      let names l = List.sort compare (List.map (fun s -> match String.split_on_char ':' s with ["E"; n; _; _] -> n | _ -> s) l) in
      let count x l = List.length (List.filter ((=) x) l) in
      let missing = List.exists (fun k -> count k (sk ie) < count k (sk me)) (sk me) in
      let extra = List.exists (fun k -> count k (sk me) < count k (sk ie)) (sk ie) in
      if List.length ie = List.length me && names ie <> names me && List.map (fun s -> List.nth (String.split_on_char ':' s) 2) ie
           = List.map (fun s -> List.nth (String.split_on_char ':' s) 2) me
      then kinds := "name" :: !kinds
      else if List.length ie = List.length me && names ie = names me then kinds := "op" :: !kinds
      else begin
        if missing then kinds := "missing" :: !kinds;
        if extra then kinds := "extra" :: !kinds
      end
    end
  end;
  !kinds

let is_child_of name p =
  let lp = String.length p and ln = String.length name in
  name = p || (ln > lp + 1 && String.sub name 0 lp = p && name.[lp] = '/' && not (String.contains (String.sub name (lp+1) (ln-lp-1)) '/'))

let () =
  let ic = if Array.length Sys.argv > 1 then open_in Sys.argv.(1) else stdin in
  let cur : hist option ref = ref None in
  let nh = ref 0 and nsteps = ref 0 in
  let finish () = cur := None in
  (try while true do
    let line = input_line ic in
    let toks = String.split_on_char ' ' line in
    (match toks, !cur with
    | "H" :: id :: rest, _ ->
      incr nh;
      let recurse = field "recurse=" rest = "1" and cwd = unhex (field "cwd=" rest) in
      cur := Some { id = int_of_string id; cfg = { c_recurse = recurse; c_cwd = chars_of_string cwd }; s = x_init; stepno = 0;
                    confirmed = 0; benign = true; sentinel = ""; prev_tpath = []; prev_twd = []; last_was_process = false; dead = false;
                    ended_watches = []; emitted = []; stores = []; nstores = 0; overflowed = false };
      bump (if recurse then "histories_recursive" else "histories_plain")
    | ["pl"; a; r], _ ->
      (* direct correspondence of PathLex.clean with filepath.Clean (what Add / Remove apply to their argument) *)
      bump "pathlex_cases";
      let arg = unhex a and impl = unhex r in
      let m = string_of_chars (x_clean (chars_of_string arg)) in
      if m <> impl then emit "MISMATCH" "pathlex-clean" 0 0 (Printf.sprintf "arg=%s impl=%s model=%s" (String.escaped arg) (String.escaped impl) (String.escaped m))
    | ["end"], Some _ -> finish ()
    | _, Some h when h.dead -> ()
    | "abort" :: _, Some h -> emit "MISMATCH" "stalled" h.id h.stepno "impl=reader-stalled model=-"; h.dead <- true
    | "fs" :: op :: _, Some h -> h.stepno <- h.stepno + 1; incr nsteps; bump ("fs_" ^ op); h.last_was_process <- false
    | ["add"; arg; ops; nf; walk; "=>"; cls], Some h ->
      h.stepno <- h.stepno + 1; incr nsteps; bump "api_add"; h.last_was_process <- false;
      if h.sentinel = "" then h.sentinel <- unhex arg;
      let st = SAdd (chars_of_string (unhex arg), n_of_int (int_of_string ops), nf = "1", parse_walk walk) in
      let (s', r) = x_step h.cfg h.s st in
      h.s <- s';
      let m = result_class r in
      bump ("add_result_" ^ cls);
      if m <> cls then emit "MISMATCH" "api-add" h.id h.stepno (Printf.sprintf "arg=%s impl=%s model=%s" (String.escaped (unhex arg)) cls m)
    | ["remove"; arg; "=>"; cls], Some h ->
      h.stepno <- h.stepno + 1; incr nsteps; bump "api_remove"; h.last_was_process <- false;
      let a = unhex arg in
      let (s', r) = x_step h.cfg h.s (SRemove (chars_of_string a)) in
      h.s <- s';
      let m = result_class r in
      bump ("remove_result_" ^ cls);
      if cls = "panic" then emit "SPEC" "remove-panics" h.id h.stepno (Printf.sprintf "arg=%s" (String.escaped a));
      (* spec: Remove of a path that is not listed fails with ErrNonExistentWatch *)
      let ca = string_of_chars (x_clean (chars_of_string a)) in
      let listed = List.mem_assoc ca h.prev_tpath in
      if not h.cfg.c_recurse then begin
        if (not listed) && cls <> "nonexistent" then emit "SPEC" "remove-unlisted-not-nonexistent" h.id h.stepno (Printf.sprintf "arg=%s impl=%s" (String.escaped a) cls);
        if listed && cls = "nonexistent" then emit "SPEC" "remove-listed-nonexistent" h.id h.stepno (Printf.sprintf "arg=%s" (String.escaped a))
      end;
      if h.cfg.c_recurse && cls = "EINVAL" then begin
        (* a recursive Remove that hits EINVAL stops half-way, in Go's map-iteration order: the outcome is not a function
           of the history, so the comparison ends here *)
        bump "abandoned_nondeterministic_recursive_remove"; h.dead <- true end
      else
      if m <> cls then emit "MISMATCH" "api-remove" h.id h.stepno (Printf.sprintf "arg=%s impl=%s model=%s" (String.escaped a) cls m)
    | ["list"; "=>"; l], Some h ->
      h.stepno <- h.stepno + 1; incr nsteps; bump "api_list";
      let impl = List.sort compare (List.map unhex (split ',' l)) in
      let (_, r) = x_step h.cfg h.s SList in
      let model = (match r with RList l -> List.sort compare (List.map string_of_chars l) | _ -> []) in
      (* spec: no path twice *)
      if List.length (List.sort_uniq compare impl) <> List.length impl then emit "SPEC" "list-duplicate" h.id h.stepno "";
      if impl <> model then emit "MISMATCH" "list" h.id h.stepno
          (Printf.sprintf "impl=[%s] model=[%s]" (String.concat "," (List.map String.escaped impl)) (String.concat "," (List.map String.escaped model)))
    | ["kemit"; wd; mask; cookie; len; name], Some h ->
      let r = raw_of_fields wd mask cookie len name in
      bump "kernel_records"; bump ("namelen_mod16_" ^ string_of_int (String.length (unhex name) mod 16));
      h.emitted <- (int_of_string wd, int_of_string mask, unhex name) :: h.emitted;
      if not (x_env_ok h.s (KEmit r)) then emit "KERNEL" "emit-for-dead-mark" h.id h.stepno (raw_str r);
      h.s <- fst (x_step h.cfg h.s (KEmit r)); h.confirmed <- h.confirmed + 1
    | ["krelease"; wd; ds], Some h ->
      bump "kernel_releases";
      let st = KRelease (n_of_int (int_of_string wd), ds = "1") in
      if not (x_env_ok h.s st) then emit "KERNEL" "release-of-dead-mark" h.id h.stepno wd;
      h.s <- fst (x_step h.cfg h.s st); h.confirmed <- h.confirmed + (if ds = "1" then 2 else 1)
    | ["koverflow"], Some h ->
      bump "kernel_overflows"; h.benign <- false; h.overflowed <- true;
      h.s <- fst (x_step h.cfg h.s KOverflow); h.confirmed <- h.confirmed + 1
    | ["kauto"; wd; mask; cookie; len; name], Some h ->
      let r = raw_of_fields wd mask cookie len name in
      bump "kernel_auto_records";
      let q = x_kq h.s in
      (match List.nth_opt q h.confirmed with
       | Some m when raw_eq m r -> h.confirmed <- h.confirmed + 1
       | Some m ->
         (* the records a single call causes may come in another order (Go map iteration): accept a permutation of the
            unconfirmed tail and put the model's queue into the real order *)
         let head = List.filteri (fun i _ -> i < h.confirmed) q and tail = List.filteri (fun i _ -> i >= h.confirmed) q in
         if List.exists (raw_eq r) tail then begin
           let rec remove_first = function [] -> [] | x :: l -> if raw_eq x r then l else x :: remove_first l in
           let q' = head @ (r :: remove_first tail) in
           h.s <- { h.s with k = { h.s.k with kq = q' } };
           h.confirmed <- h.confirmed + 1
         end else begin
           emit "KERNEL" "auto-record-differs" h.id h.stepno (Printf.sprintf "real=%s model=%s" (raw_str r) (raw_str m)); h.dead <- true end
       | None ->
         emit "KERNEL" "auto-record-unpredicted" h.id h.stepno (Printf.sprintf "real=%s" (raw_str r));
         (* the library made a kernel call the model does not make.  Adopt what really happened (the mark is gone, the
            record is queued) and go on, so that the property-level consequences further down the history are seen too *)
         if int_of_n r.r_mask land 0x8000 <> 0 then begin
           let k = h.s.k in
           let marks' = List.fold_left (fun m (wd, ino) -> if wd = r.r_wd then m else m) k.marks [] in
           ignore marks';
           h.s <- fst (x_step h.cfg h.s (KRelease (r.r_wd, false)));
           h.confirmed <- h.confirmed + 1
         end else h.dead <- true)
    | "state" :: rest, Some h ->
      let marks = List.sort compare (List.map (fun it -> match String.split_on_char ':' it with [a; b] -> (int_of_string a, int_of_string b) | _ -> (0, 0)) (split ',' (field "marks=" rest))) in
      let twd = List.sort compare (List.map (fun it -> match String.split_on_char ':' it with [a; p; f; r] -> (int_of_string a, unhex p, int_of_string f, r = "1") | _ -> (0, "", 0, false)) (split ',' (field "twd=" rest))) in
      let tpath = List.sort compare (List.map (fun it -> match String.split_on_char ':' it with [p; w] -> (unhex p, int_of_string w) | _ -> ("", 0)) (split ',' (field "tpath=" rest))) in
      let pending = int_of_string (field "pending=" rest) in
      let mmarks = List.sort compare (List.map (fun (a, b) -> (int_of_n a, int_of_n b)) (x_marks h.s)) in
      let mtwd = List.sort compare (List.map (fun (a, w) -> (int_of_n a, string_of_chars w.w_path, int_of_n w.w_flags, w.w_rec)) (x_twd h.s)) in
      let mtpath = List.sort compare (List.map (fun (p, w) -> (string_of_chars p, int_of_n w)) (x_tpath h.s)) in
      if List.length (x_kq h.s) <> h.confirmed then begin
        emit "KERNEL" "model-queued-more-than-real" h.id h.stepno (Printf.sprintf "model_queue=%d confirmed=%d" (List.length (x_kq h.s)) h.confirmed); h.dead <- true end;
      if marks <> mmarks then begin
        emit "KERNEL" "marks" h.id h.stepno (Printf.sprintf "real=[%s] model=[%s]"
          (String.concat "," (List.map (fun (a, b) -> Printf.sprintf "%d:%d" a b) marks)) (String.concat "," (List.map (fun (a, b) -> Printf.sprintf "%d:%d" a b) mmarks)));
        note_kind "MISMATCH" "marks" h.id end;
      let show_twd l = String.concat "," (List.map (fun (a, p, f, r) -> Printf.sprintf "%d:%s:%x:%b" a (String.escaped p) f r) l) in
      if List.map (fun (a, p, _, r) -> (a, p, r)) twd <> List.map (fun (a, p, _, r) -> (a, p, r)) mtwd then
        emit "MISMATCH" "twd" h.id h.stepno (Printf.sprintf "impl=[%s] model=[%s]" (show_twd twd) (show_twd mtwd))
      else if twd <> mtwd then emit "MISMATCH" "twd-flags" h.id h.stepno (Printf.sprintf "impl=[%s] model=[%s]" (show_twd twd) (show_twd mtwd));
      let show_tp l = String.concat "," (List.map (fun (p, w) -> Printf.sprintf "%s:%d" (String.escaped p) w) l) in
      if tpath <> mtpath then emit "MISMATCH" "tpath" h.id h.stepno (Printf.sprintf "impl=[%s] model=[%s]" (show_tp tpath) (show_tp mtpath));
      (* ---- specification-level predicates on the implementation's own observations ---- *)
      let wds_k = List.map fst marks and wds_t = List.map (fun (a, _, _, _) -> a) twd in
      if pending = 0 && h.last_was_process && h.benign then begin
        bump "quiescent_points";
        (* C12: kernel watches = table entries; one table entry per listed path *)
        if wds_k <> wds_t then emit "SPEC" "C12-kernel-vs-tables" h.id h.stepno
            (Printf.sprintf "kernel_wds=[%s] table_wds=[%s]" (String.concat "," (List.map string_of_int wds_k)) (String.concat "," (List.map string_of_int wds_t)));
        if (not h.cfg.c_recurse) && List.length twd <> List.length tpath then emit "SPEC" "C12-table-sizes" h.id h.stepno
            (Printf.sprintf "wd_table=%d path_table=%d" (List.length twd) (List.length tpath))
      end;
      (* C04/C12: every listed path is backed by an entry (no dangling path entries) *)
      List.iter (fun (p, w) -> if not (List.mem w wds_t) then emit "SPEC" "dangling-path-entry" h.id h.stepno (Printf.sprintf "path=%s wd=%d" (String.escaped p) w)) tpath;
      h.prev_tpath <- tpath; h.prev_twd <- List.map (fun (a, p, _, _) -> (a, p)) twd
    | "process" :: parts :: bytes :: dirs :: "=>" :: status :: outs :: _, Some h ->
      h.stepno <- h.stepno + 1; incr nsteps; bump "process_steps"; h.last_was_process <- true;
      let recs = x_decode (bytes_of_hex bytes) in
      bump ~by:(List.length recs) "records_processed";
      bump ("batch_size_" ^ (let n = List.length recs in if n <= 2 then string_of_int n else if n <= 8 then "3-8" else if n <= 64 then "9-64" else "65+"));
      let dirs = parse_dirs (String.sub dirs 5 (String.length dirs - 5)) in
      let before = List.length (x_outs h.s) in
      if List.length recs <> String.length parts then begin
        emit "MISMATCH" "decode-count" h.id h.stepno (Printf.sprintf "parts=%s decoded=%d" parts (List.length recs)); h.dead <- true end
      else begin
        let per_record = ref [] in
        List.iteri (fun i r ->
          let n_before = List.length (x_outs h.s) in
          let twd_before = x_twd h.s and tpath_before = x_tpath h.s in
          (match parts.[i] with
          | 'R' ->
            (match x_kq h.s with
             | m :: _ when raw_eq m r -> ()
             | m :: _ -> emit "KERNEL" "queue-head-differs" h.id h.stepno (Printf.sprintf "real=%s model=%s" (raw_str r) (raw_str m))
             | [] -> emit "KERNEL" "queue-empty" h.id h.stepno (raw_str r));
            h.s <- fst (x_step h.cfg h.s (SHandle dirs)); h.confirmed <- max 0 (h.confirmed - 1)
          | 'S' -> h.s <- fst (x_step h.cfg h.s (SInject (r, dirs)))
          | _ -> h.benign <- false; bump "injected_records";
            if int_of_n r.r_mask land 0x4000 <> 0 then h.overflowed <- true;
            h.s <- fst (x_step h.cfg h.s (SInject (r, dirs))));
          let produced = List.filteri (fun j _ -> j >= n_before) (x_outs h.s) in
          per_record := (parts.[i], r, produced, twd_before, tpath_before) :: !per_record) recs;
        let all = x_outs h.s in
        let fresh = List.filteri (fun i _ -> i >= before) all in
        let sent = Printf.sprintf "E:%s:256:-" (hex h.sentinel) in
        let model = List.filter (fun s -> s <> sent) (List.map out_str fresh) in
        let impl = split ',' outs in
        bump ~by:(List.length (List.filter (fun s -> s.[0] = 'E') impl)) "events_delivered";
        bump ~by:(List.length (List.filter (fun s -> s.[0] = 'X') impl)) "errors_delivered";
        if status <> "ok" then emit "MISMATCH" ("reader-" ^ status) h.id h.stepno "";
        if impl <> model then
          List.iter (fun k ->
            emit "MISMATCH" ("out-" ^ k) h.id h.stepno (Printf.sprintf "impl=%s model=%s" (pretty impl) (pretty model));
            if k = "missing" && h.overflowed then
              emit "MISMATCH" "out-missing-after-overflow" h.id h.stepno (Printf.sprintf "impl=%s model=%s" (pretty impl) (pretty model)))
            (split_kinds impl model);
        (* C03: a move between watched names is Rename(old) IMMEDIATELY followed by Create(new <- old): every such adjacent
           pair of the expected sequence must occur, adjacent, in what was delivered *)
        (let fields s = split ':' s in
         let rec pairs = function a :: (b :: _ as tl) -> (a, b) :: pairs tl | _ -> [] in
         let is_move_pair (a, b) =
           match fields a, fields b with
           | ["E"; oldn; opa; _], ["E"; _; opb; from] ->
             (try (int_of_string opa) land 8 <> 0 && (int_of_string opb) land 1 <> 0 && from <> "-" && from = oldn with _ -> false)
           | _ -> false in
         let impl_pairs = pairs impl in
         List.iter (fun (a, b) ->
           if is_move_pair (a, b) && not (List.mem (a, b) impl_pairs) then
             emit "SPEC" "C03-rename-not-immediately-followed-by-create" h.id h.stepno
               (Printf.sprintf "expected adjacent %s ; delivered %s" (pretty [a; b]) (pretty impl))) (pairs model));
        if impl = model && not h.cfg.c_recurse then
          List.iter (fun (part, r, produced, twd_before, tpath_before) ->
            let mask = int_of_n r.r_mask and cookie = int_of_n r.r_cookie in
            let evs = List.filter_map (function OEv (n, op, f) -> Some (string_of_chars n, int_of_n op, string_of_chars f) | _ -> None) produced in
            let evs = List.filter (fun (n, op, _) -> not (n = h.sentinel && op = 256)) evs in
            (* C11: a move between listed names carries the old name; anything else carries none *)
            (match evs with
             | [(n, _, f)] when cookie <> 0 && mask land 0x40 <> 0 ->
               h.nstores <- h.nstores + 1; h.stores <- (cookie, n, h.nstores) :: h.stores
             | [(n, _, f)] when cookie <> 0 && mask land 0x80 <> 0 ->
               (match List.find_opt (fun (c, _, _) -> c = cookie) h.stores with
                | Some (_, old, serial) ->
                  if f <> old then begin
                    let between = h.nstores - serial in
                    if between >= 10 then emit "SPEC" "C11-ring-overrun" h.id h.stepno (Printf.sprintf "new=%s expected_old=%s got=%s move-outs-in-between=%d" (String.escaped n) (String.escaped old) (String.escaped f) between)
                    else emit "SPEC" "C11-lost-partner" h.id h.stepno (Printf.sprintf "new=%s expected_old=%s got=%s move-outs-in-between=%d" (String.escaped n) (String.escaped old) (String.escaped f) between) end
                | None -> if f <> "" then emit "SPEC" "C11-false-partner" h.id h.stepno (Printf.sprintf "new=%s got=%s" (String.escaped n) (String.escaped f)))
             | [(n, _, f)] when f <> "" -> emit "SPEC" "C11-false-partner" h.id h.stepno (Printf.sprintf "name=%s got=%s mask=%x" (String.escaped n) (String.escaped f) mask)
             | _ -> ());
            (* C01/C09: a suppressed IN_DELETE_SELF must really be reported by the listed parent *)
            if part = 'R' && mask land 0x400 <> 0 && evs = [] then begin
              match List.find_opt (fun (wd, _) -> int_of_n wd = int_of_n r.r_wd) twd_before with
              | Some (_, w) ->
                let path = string_of_chars w.w_path in
                let parent = (match String.rindex_opt path '/' with Some 0 -> "/" | Some i -> String.sub path 0 i | None -> ".") in
                let base = (match String.rindex_opt path '/' with Some i -> String.sub path (i+1) (String.length path - i - 1) | None -> path) in
                (match List.find_opt (fun (p, _) -> string_of_chars p = parent) tpath_before with
                 | Some (_, pwd) ->
                   let pwd = int_of_n pwd in
                   if not (List.exists (fun (wd, m, nm) -> wd = pwd && m land 0x200 <> 0 && nm = base) h.emitted) then
                     emit "SPEC" "C01-delete-self-suppressed-but-parent-never-reported" h.id h.stepno (Printf.sprintf "path=%s parent=%s" (String.escaped path) (String.escaped parent))
                 | None -> ())
              | None -> ()
            end) (List.rev !per_record);
        (* ---- specification-level predicates on the implementation's own outputs ---- *)
        List.iter (fun o ->
          match String.split_on_char ':' o with
          | ["E"; n; op; _] ->
            let name = unhex n in
            if int_of_string op = 0 then emit "SPEC" "C02-empty-op" h.id h.stepno (String.escaped name);
            if not (List.exists (fun (p, _) -> is_child_of name p) h.prev_tpath || List.exists (fun (_, p) -> is_child_of name p) h.prev_twd) then
              emit "SPEC" "C02-name-not-watched" h.id h.stepno (String.escaped name);
            if String.contains name '\000' then emit "SPEC" "C08-nul-in-name" h.id h.stepno (String.escaped name)
          | ["X"; c] ->
            if h.benign && not h.cfg.c_recurse then emit "SPEC" "C10-error-on-benign-history" h.id h.stepno c
          | _ -> ()) impl
      end
    | _ -> ())
  done with End_of_file -> ());
  Hashtbl.iter (fun k v -> Printf.printf "STAT %s %d\n" k v) stats;
  Hashtbl.iter (fun k h -> Printf.printf "KINDHIST %s %s\n" k (String.concat "," (List.map string_of_int (Hashtbl.fold (fun id () acc -> id :: acc) h [])))) mism_hist;
  Printf.printf "SUMMARY histories=%d steps=%d\n" !nh !nsteps
