// Testdata gate: replay the repository's scripts (format of helpers_test.go: parseScript / newEvents / cmpEvents)
// against the copied kqueue backend on the simulated vnode kernel, as GOOS=freebsd would select expectations.
package main

import (
	"fmt"
	"os"
	"path/filepath"
	"sort"
	"strconv"
	"strings"

	"kqscratch/simunix"
)

type scmd struct {
	cmd  string
	args []string
}

func splitCmd(line string) scmd {
	var c scmd
	var cur []rune
	q := false
	app := func() {
		if len(cur) == 0 {
			return
		}
		if c.cmd == "" {
			c.cmd = string(cur)
		} else {
			c.args = append(c.args, string(cur))
		}
		cur = cur[:0]
	}
	for _, r := range line {
		switch r {
		case ' ', '\t':
			if q {
				cur = append(cur, r)
			} else {
				app()
			}
		case '"', '\'':
			q = !q
		default:
			cur = append(cur, r)
		}
	}
	app()
	return c
}

// expectations selects the freebsd / kqueue / default group like newEvents does with runtime.GOOS == "freebsd".
func expectations(s string) ([]string, string) {
	groups := []string{""}
	events := map[string][]string{}
	for _, line := range strings.Split(s, "\n") {
		if i := strings.IndexByte(line, '#'); i > -1 {
			line = line[:i]
		}
		line = strings.TrimSpace(line)
		if line == "" {
			continue
		}
		if strings.HasSuffix(line, ":") {
			groups = strings.Split(strings.TrimRight(line, ":"), ",")
			for i := range groups {
				groups[i] = strings.TrimSpace(groups[i])
			}
			continue
		}
		f := strings.Fields(line)
		if len(f) != 2 && len(f) != 4 {
			if strings.ToLower(f[0]) == "empty" || strings.ToLower(f[0]) == "no-events" {
				for _, g := range groups {
					events[g] = []string{}
				}
			}
			continue
		}
		// canonical op text in Op.String order; renamedFrom is dropped (supportsRename() is false on freebsd)
		var ops []string
		for _, n := range []string{"CREATE", "REMOVE", "WRITE", "RENAME", "CHMOD"} {
			for _, o := range strings.Split(f[0], "|") {
				if strings.ToUpper(o) == n {
					ops = append(ops, n)
				}
			}
		}
		for _, g := range groups {
			events[g] = append(events[g], strings.Join(ops, "|")+":"+strings.Trim(f[1], `"`))
		}
	}
	if e, ok := events["freebsd"]; ok {
		return e, "freebsd"
	}
	if e, ok := events["kqueue"]; ok {
		return e, "kqueue"
	}
	return events[""], "default"
}

func (s *session) tmppath(p string) string {
	if p == "" {
		return ""
	}
	if !strings.HasPrefix(p, "./") {
		return filepath.Join(s.tmp, p)
	}
	return p
}

// prim performs one primitive operation with its notes and lets the reader run (the scripts sleep after every command).
func (s *session) prim(op string, args ...string) error {
	ok, notes := fsop(op, args)
	if !ok {
		return fmt.Errorf("%s %v failed", op, args)
	}
	simunix.Inject(notes)
	s.sync()
	return nil
}

func (s *session) rmAll(p string) error {
	st := lstat(p)
	if st == nil {
		return nil
	}
	if !st.isDir() {
		return s.prim("unlink", p)
	}
	ents, err := os.ReadDir(p)
	if err != nil {
		return err
	}
	for _, e := range ents {
		if err := s.rmAll(filepath.Join(p, e.Name())); err != nil {
			return err
		}
	}
	return s.prim("rmdir", p)
}

func (s *session) mkdirAll(p string) error {
	if lstat(p).isDir() {
		return nil
	}
	if err := s.mkdirAll(filepath.Dir(p)); err != nil {
		return err
	}
	return s.prim("mkdir", p)
}

func runScript(text string) (verdict, detail string) {
	var cmds []scmd
	want, readW := "", false
	for _, line := range strings.Split(text, "\n") {
		line = strings.TrimSpace(line)
		if line == "" || line[0] == '#' {
			continue
		}
		if i := strings.IndexByte(line, '#'); i > -1 {
			line = strings.TrimSpace(line[:i])
		}
		if line == "Output:" {
			readW = true
			continue
		}
		if readW {
			want += line + "\n"
			continue
		}
		cmds = append(cmds, splitCmd(line))
	}
	// skip rules of parseScript for a kqueue system (freebsd)
	for _, c := range cmds {
		if c.cmd == "skip" || c.cmd == "require" {
			if len(c.args) != 1 {
				return "SKIP", "malformed " + c.cmd
			}
			switch c.args[0] {
			case "op_all", "op_open", "op_read", "op_close_write", "op_close_read", "recurse", "filter", "nofollow":
				return "SKIP", "the script itself is skipped on kqueue systems (" + c.args[0] + ")"
			case "mknod":
				return "SKIP", "the script itself is skipped on kqueue systems (mknod needs root on BSD)"
			case "always":
				return "SKIP", "skip always"
			}
		}
	}
	s, err := newSession()
	if err != nil {
		return "ERROR", err.Error()
	}
	defer s.end()
	fail := func(c scmd, err error) (string, string) {
		return "ERROR", fmt.Sprintf("%s %v: %v", c.cmd, c.args, err)
	}
loop:
	for _, c := range cmds {
		var err error
		switch c.cmd {
		case "skip", "require", "debug", "print", "state":
		case "stop":
			break loop
		case "sleep":
		case "watch":
			if len(c.args) != 1 {
				return "SKIP", "watch with options (withOps / nofollow are not supported by the kqueue backend)"
			}
			err = s.w.Add(s.tmppath(c.args[0]))
			s.sync()
		case "unwatch":
			err = s.w.Remove(s.tmppath(c.args[0]))
			s.sync()
		case "watchlist":
			n, _ := strconv.Atoi(c.args[0])
			if l := len(s.w.WatchList()); l != n {
				return "FAIL", fmt.Sprintf("watchlist has %d entries, not %d", l, n)
			}
		case "touch":
			err = s.prim("create", s.tmppath(c.args[0]))
		case "mkdir":
			if len(c.args) == 2 && c.args[0] == "-p" {
				err = s.mkdirAll(s.tmppath(c.args[1]))
			} else {
				err = s.prim("mkdir", s.tmppath(c.args[0]))
			}
		case "ln":
			if len(c.args) != 3 || c.args[0] != "-s" {
				return "SKIP", "only ln -s"
			}
			err = s.prim("symlink", s.tmppath(c.args[1]), s.tmppath(c.args[2]))
		case "mkfifo":
			err = s.prim("mkfifo", s.tmppath(c.args[0]))
		case "mv":
			err = s.prim("rename", s.tmppath(c.args[0]), s.tmppath(c.args[1]))
		case "rm":
			if len(c.args) == 2 && c.args[0] == "-r" {
				err = s.rmAll(s.tmppath(c.args[1]))
			} else if lstat(s.tmppath(c.args[0])).isDir() {
				err = s.prim("rmdir", s.tmppath(c.args[0]))
			} else {
				err = s.prim("unlink", s.tmppath(c.args[0]))
			}
		case "chmod":
			p := s.tmppath(c.args[1])
			if c.args[0] == "0" {
				err = s.prim("chmod0", p)
			} else {
				err = s.prim("chmod", p)
			}
		case "cat":
			err = s.prim("read", s.tmppath(c.args[0]))
		case "echo":
			var op, dst string
			if len(c.args) == 2 {
				op, dst = c.args[1][:1], c.args[1][1:]
				if strings.HasPrefix(dst, ">") {
					op, dst = op+dst[:1], dst[1:]
				}
			} else if len(c.args) == 3 {
				op, dst = c.args[1], c.args[2]
			} else {
				return "SKIP", "echo form"
			}
			p := s.tmppath(dst)
			// echo(): open (O_CREATE, plus O_TRUNC for ">"), pause, write, pause, close
			if op == ">" || lstat(p) == nil {
				err = s.prim("create", p)
			}
			if err == nil {
				err = s.prim("write", p)
			}
		default:
			return "SKIP", "unknown command " + c.cmd
		}
		if err != nil {
			return fail(c, err)
		}
	}
	s.w.Close()
	if !s.drainClosed() {
		return "FAIL", "event stream was not closed after Close"
	}
	have, _ := s.takeEvents()
	for i := range have { // TrimPrefix(tmp)
		j := strings.IndexByte(have[i], ':')
		n := have[i][j+1:]
		if n == "/T" {
			n = "/"
		} else {
			n = strings.TrimPrefix(n, "/T")
		}
		have[i] = have[i][:j+1] + n
	}
	wantL, group := expectations(want)
	hs, ws := append([]string{}, have...), append([]string{}, wantL...)
	sort.Strings(hs)
	sort.Strings(ws)
	if strings.Join(hs, "\n") != strings.Join(ws, "\n") {
		return "FAIL", fmt.Sprintf("group=%s have=[%s] want=[%s]", group, strings.Join(have, ", "), strings.Join(wantL, ", "))
	}
	return "PASS", fmt.Sprintf("group=%s events=%d", group, len(have))
}

func runScripts(dir string) error {
	var files []string
	filepath.Walk(dir, func(p string, info os.FileInfo, err error) error {
		if err == nil && !info.IsDir() {
			files = append(files, p)
		}
		return nil
	})
	sort.Strings(files)
	for _, f := range files {
		d, err := os.ReadFile(f)
		if err != nil {
			return err
		}
		rel, _ := filepath.Rel(dir, f)
		v, detail := runScript(string(d))
		fmt.Printf("SCRIPT %s %s %s\n", rel, v, detail)
	}
	return nil
}
