// kq harness: drives the kqueue backend copied from the working tree (package kqscratch/fsnotify,
// compiled against kqscratch/simunix) with real filesystem operations in a private temporary
// directory and a simulated vnode kernel (DESIGN 3.6).
//
//	kqh -scripts <dir>     testdata gate: replay the repository's scripts, compare with the recorded kqueue/freebsd expectations
//	kqh -hist <file>       run history files; every step line is echoed with the observations appended after "=>"
package main

import (
	"bufio"
	"errors"
	"flag"
	"fmt"
	"io/fs"
	"os"
	"path/filepath"
	"sort"
	"strconv"
	"strings"
	"syscall"
	"time"

	"kqscratch/fsnotify"
	"kqscratch/simunix"
)

const (
	nDELETE = simunix.NOTE_DELETE
	nWRITE  = simunix.NOTE_WRITE
	nATTRIB = simunix.NOTE_ATTRIB
	nLINK   = simunix.NOTE_LINK
	nRENAME = simunix.NOTE_RENAME
)

// ---------------------------------------------------------------- simulated vnode kernel: real operation + notes

type ident struct {
	dev, ino uint64
	mode     uint32
	nlink    uint64
}

func lstat(p string) *ident {
	var st syscall.Stat_t
	if syscall.Lstat(p, &st) != nil {
		return nil
	}
	return &ident{uint64(st.Dev), uint64(st.Ino), st.Mode, uint64(st.Nlink)}
}

func stat(p string) *ident {
	var st syscall.Stat_t
	if syscall.Stat(p, &st) != nil {
		return nil
	}
	return &ident{uint64(st.Dev), uint64(st.Ino), st.Mode, uint64(st.Nlink)}
}

func (i *ident) isDir() bool { return i != nil && i.mode&syscall.S_IFMT == syscall.S_IFDIR }
func (i *ident) isReg() bool { return i != nil && i.mode&syscall.S_IFMT == syscall.S_IFREG }
func (i *ident) isLnk() bool { return i != nil && i.mode&syscall.S_IFMT == syscall.S_IFLNK }

func parentOf(p string) string {
	p = strings.TrimRight(p, "/")
	i := strings.LastIndexByte(p, '/')
	switch {
	case i < 0:
		return "."
	case i == 0:
		return "/"
	}
	return p[:i]
}

func note(i *ident, f uint32) simunix.Note { return simunix.Note{Dev: i.dev, Ino: i.ino, Fflags: f} }

// fsop performs one primitive operation and returns the notes FreeBSD's vop_*_post hooks would raise, in their order.
func fsop(op string, a []string) (bool, []simunix.Note) {
	var notes []simunix.Note
	need := map[string]int{"create": 1, "write": 1, "trunc": 1, "chmod": 1, "chmod0": 1, "unlink": 1, "mkdir": 1, "rmdir": 1,
		"mkfifo": 1, "symlink": 2, "link": 2, "rename": 2, "read": 1}
	if n, ok := need[op]; !ok || len(a) != n {
		return false, nil
	}
	switch op {
	case "create": // touch: O_CREAT, truncating an existing regular file
		p := a[0]
		st, par := lstat(p), stat(parentOf(p))
		if !par.isDir() {
			return false, nil
		}
		if st == nil {
			fd, err := syscall.Open(p, syscall.O_CREAT|syscall.O_EXCL|syscall.O_WRONLY, 0o644)
			if err != nil {
				return false, nil
			}
			syscall.Close(fd)
			return true, append(notes, note(par, nWRITE))
		}
		if !st.isReg() {
			return false, nil
		}
		fd, err := syscall.Open(p, syscall.O_WRONLY|syscall.O_TRUNC, 0)
		if err != nil {
			return false, nil
		}
		syscall.Close(fd)
		return true, append(notes, note(st, nATTRIB))
	case "write": // append data to an existing regular file (symlinks followed)
		st := stat(a[0])
		if !st.isReg() {
			return false, nil
		}
		fd, err := syscall.Open(a[0], syscall.O_WRONLY|syscall.O_APPEND, 0)
		if err != nil {
			return false, nil
		}
		syscall.Write(fd, []byte("data\n"))
		syscall.Close(fd)
		return true, append(notes, note(st, nWRITE))
	case "read":
		_, err := os.ReadFile(a[0])
		return err == nil, nil
	case "trunc":
		st := stat(a[0])
		if !st.isReg() || syscall.Truncate(a[0], 0) != nil {
			return false, nil
		}
		return true, append(notes, note(st, nATTRIB))
	case "chmod", "chmod0":
		st := lstat(a[0])
		if st == nil || st.isLnk() {
			return false, nil
		}
		mode := uint32(0o644)
		if st.isDir() {
			mode = 0o755
		}
		if st.mode&0o777 == mode {
			mode &^= 0o044
		}
		if op == "chmod0" {
			mode = 0
		}
		if syscall.Chmod(a[0], mode) != nil {
			return false, nil
		}
		return true, append(notes, note(st, nATTRIB))
	case "unlink":
		st, par := lstat(a[0]), stat(parentOf(a[0]))
		if st == nil || st.isDir() || syscall.Unlink(a[0]) != nil {
			return false, nil
		}
		notes = append(notes, note(par, nWRITE))
		if st.nlink <= 1 {
			notes = append(notes, note(st, nDELETE))
		}
		return true, notes
	case "mkdir":
		par := stat(parentOf(a[0]))
		if !par.isDir() || syscall.Mkdir(a[0], 0o755) != nil {
			return false, nil
		}
		return true, append(notes, note(par, nWRITE|nLINK))
	case "rmdir":
		st, par := lstat(a[0]), stat(parentOf(a[0]))
		if !st.isDir() || syscall.Rmdir(a[0]) != nil {
			return false, nil
		}
		return true, append(notes, note(par, nWRITE|nLINK), note(st, nDELETE))
	case "mkfifo":
		par := stat(parentOf(a[0]))
		if !par.isDir() || syscall.Mkfifo(a[0], 0o644) != nil {
			return false, nil
		}
		return true, append(notes, note(par, nWRITE))
	case "symlink":
		par := stat(parentOf(a[1]))
		if !par.isDir() || syscall.Symlink(a[0], a[1]) != nil {
			return false, nil
		}
		return true, append(notes, note(par, nWRITE))
	case "link":
		st, par := lstat(a[0]), stat(parentOf(a[1]))
		if !st.isReg() || !par.isDir() || syscall.Link(a[0], a[1]) != nil {
			return false, nil
		}
		return true, append(notes, note(par, nWRITE)) // NOTE_LINK on the file is not subscribed
	case "rename":
		src, dst := a[0], a[1]
		s, t := lstat(src), lstat(dst)
		sp, tp := stat(parentOf(src)), stat(parentOf(dst))
		if s == nil || !sp.isDir() || !tp.isDir() {
			return false, nil
		}
		if t != nil && t.dev == s.dev && t.ino == s.ino {
			return false, nil // same file: rename(2) does nothing; not part of the modelled operations
		}
		if syscall.Rename(src, dst) != nil {
			return false, nil
		}
		notes = append(notes, note(sp, nWRITE), note(tp, nWRITE), note(s, nRENAME))
		if t != nil && (t.isDir() || t.nlink <= 1) {
			notes = append(notes, note(t, nDELETE))
		}
		return true, notes
	}
	return false, nil
}

// ---------------------------------------------------------------- watcher session

type session struct {
	tmp    string
	w      *fsnotify.Watcher
	kq     int
	pr     int  // read end of the close pipe
	closed bool // reader has exited (Events closed)
	stuck  bool // the reader neither went idle nor exited within the watchdog time (e.g. blocked in open(2) of a FIFO)
	evs    []string
	errs   []string
}

func newSession() (*session, error) {
	tmp, err := os.MkdirTemp("", "kqh-")
	if err != nil {
		return nil, err
	}
	tmp, _ = filepath.EvalSymlinks(tmp)
	if err := os.Chdir(tmp); err != nil {
		return nil, err
	}
	simunix.Reset()
	w, err := fsnotify.NewWatcher()
	if err != nil {
		return nil, err
	}
	s := &session{tmp: tmp, w: w, kq: fsnotify.VerifKqFd(w), pr: -1}
	for _, d := range simunix.Ledger() {
		if d.Kind == "pipe-r" {
			s.pr = d.Fd
		}
	}
	s.sync()
	return s, nil
}

func (s *session) end() []simunix.Desc {
	if !s.closed && !s.stuck {
		simunix.Release()
		s.w.Close()
		s.drainClosed()
	}
	left := simunix.Reset()
	os.Chdir("/")
	os.RemoveAll(s.tmp)
	return left
}

func (s *session) strip(p string) string {
	if p == s.tmp {
		return "/T"
	}
	if strings.HasPrefix(p, s.tmp+"/") {
		return "/T" + p[len(s.tmp):]
	}
	return p
}

func (s *session) unstrip(p string) string {
	if p == "/T" {
		return s.tmp
	}
	if strings.HasPrefix(p, "/T/") {
		return s.tmp + p[2:]
	}
	return p
}

func errClass(err error) string {
	switch {
	case err == nil:
		return "nil"
	case errors.Is(err, fsnotify.ErrNonExistentWatch):
		return "ErrNonExistentWatch"
	case errors.Is(err, fsnotify.ErrClosed):
		return "ErrClosed"
	case errors.Is(err, syscall.ENOENT):
		return "ENOENT"
	case errors.Is(err, syscall.ENOTDIR):
		return "ENOTDIR"
	case errors.Is(err, syscall.EACCES):
		return "EACCES"
	case errors.Is(err, syscall.ELOOP):
		return "ELOOP"
	case errors.Is(err, syscall.EBADF):
		return "EBADF"
	case errors.Is(err, syscall.EINVAL):
		return "EINVAL"
	}
	return "other"
}

func (s *session) record(e fsnotify.Event) {
	op, name := fsnotify.VerifEvent(e)
	s.evs = append(s.evs, op+":"+s.strip(name))
}

// sync receives events and errors until the reader is idle (blocked in Kevent with nothing deliverable) or gone.
func (s *session) sync() {
	if s.closed {
		return
	}
	idle := make(chan bool, 1)
	stop := make(chan struct{})
	go func() { idle <- simunix.WaitIdle(s.kq, stop) }()
	evc, erc := s.w.Events, s.w.Errors
	wd := time.After(3 * time.Second)
	for {
		select {
		case e, ok := <-evc:
			if !ok {
				close(stop)
				<-idle
				s.gone()
				return
			}
			s.record(e)
		case err, ok := <-erc:
			if !ok {
				erc = nil
				continue
			}
			s.errs = append(s.errs, errClass(err))
		case <-idle:
			return
		case <-wd:
			// the reader is neither idle nor gone: it is blocked outside kevent (observed: os.ReadDir of a path that
			// became a FIFO). The history is abandoned; the blocked goroutine is left behind.
			s.stuck, s.closed = true, true
			close(stop)
			return
		}
	}
}

// gone: Events is closed, i.e. the reader is in its deferred clean-up; wait until it has closed the kqueue and the pipe's read end.
func (s *session) gone() {
	s.closed = true
	simunix.WaitGone(2*time.Second, s.kq, s.pr)
}

// drainClosed receives until Events is closed (after Close). Bounded by a watchdog: a reader that never exits is reported.
func (s *session) drainClosed() bool {
	evc, erc := s.w.Events, s.w.Errors
	wd := time.After(10 * time.Second)
	for {
		select {
		case e, ok := <-evc:
			if !ok {
				s.gone()
				return true
			}
			s.record(e)
		case err, ok := <-erc:
			if !ok {
				erc = nil
				continue
			}
			s.errs = append(s.errs, errClass(err))
		case <-wd:
			return false
		}
	}
}

func (s *session) takeEvents() ([]string, []string) {
	e, r := s.evs, s.errs
	s.evs, s.errs = nil, nil
	return e, r
}

func (s *session) ledger() string {
	var infra, vn []string
	for _, d := range simunix.Ledger() {
		switch d.Kind {
		case "kq":
			infra = append(infra, "kq")
		case "pipe-r":
			infra = append(infra, "pr")
		case "pipe-w":
			infra = append(infra, "pw")
		default:
			dead := ""
			if simunix.Nlink(d.Fd) == 0 {
				dead = "!"
			}
			vn = append(vn, fmt.Sprintf("%d:%s%s", d.Serial, s.strip(d.Path), dead))
		}
	}
	sort.Strings(infra)
	sort.Slice(vn, func(i, j int) bool {
		a, _ := strconv.Atoi(vn[i][:strings.IndexByte(vn[i], ':')])
		b, _ := strconv.Atoi(vn[j][:strings.IndexByte(vn[j], ':')])
		return a < b
	})
	return strings.Join(append(infra, vn...), ",")
}

func (s *session) tree() string {
	type ent struct{ rel, txt string }
	var l []ent
	filepath.Walk(s.tmp, func(p string, info fs.FileInfo, err error) error {
		if err != nil || p == s.tmp {
			return nil
		}
		rel := p[len(s.tmp)+1:]
		switch {
		case info.Mode()&os.ModeSymlink != 0:
			t, _ := os.Readlink(p)
			l = append(l, ent{rel, rel + ":l:" + s.strip(t)})
		case info.IsDir():
			l = append(l, ent{rel, rel + ":d"})
		case info.Mode()&os.ModeNamedPipe != 0:
			l = append(l, ent{rel, rel + ":p"})
		default:
			st := lstat(p)
			l = append(l, ent{rel, fmt.Sprintf("%s:f%d", rel, st.nlink)})
		}
		return nil
	})
	sort.Slice(l, func(i, j int) bool { return l[i].rel < l[j].rel })
	out := make([]string, len(l))
	for i := range l {
		out[i] = l[i].txt
	}
	return strings.Join(out, ",")
}

func (s *session) recs() string {
	var bs []string
	for _, b := range simunix.TakeLog() {
		var rs []string
		for _, r := range b {
			if r.Filter == simunix.EVFILT_READ {
				rs = append(rs, "P")
			} else {
				rs = append(rs, fmt.Sprintf("%d:%x", r.Serial, r.Fflags))
			}
		}
		bs = append(bs, strings.Join(rs, ","))
	}
	return strings.Join(bs, "|")
}

func (s *session) observe(res string, withTree bool) string {
	evs, errs := s.takeEvents()
	var list []string
	for _, p := range s.w.WatchList() {
		list = append(list, s.strip(p))
	}
	sort.Strings(list)
	sz := fsnotify.VerifKqSizes(s.w)
	var regs []string
	for _, r := range simunix.Registrations() {
		regs = append(regs, fmt.Sprintf("%d:%x", r[0], r[1]))
	}
	out := fmt.Sprintf("res=%s ev=[%s] er=[%s] list=[%s] led=[%s] sizes=%d,%d,%d,%d,%d rec=[%s] regs=[%s] pend=%d",
		res, strings.Join(evs, ","), strings.Join(errs, ","), strings.Join(list, ","), s.ledger(),
		sz[0], sz[1], sz[2], sz[3], sz[4], s.recs(), strings.Join(regs, ","), simunix.PendingCount())
	if withTree {
		out += " tree=[" + s.tree() + "]"
	}
	return out
}

// step executes one history step and returns the observation text.
func (s *session) step(f []string) string {
	if s.stuck {
		return "res=skipped"
	}
	out := s.step1(f)
	if s.stuck {
		return "res=reader-stuck"
	}
	return out
}

func (s *session) step1(f []string) string {
	switch f[0] {
	case "fs":
		if len(f) < 2 {
			return "res=bad"
		}
		args := make([]string, len(f)-2)
		for i, a := range f[2:] {
			args[i] = s.unstrip(a)
		}
		ok, notes := fsop(f[1], args)
		res := "fail"
		if ok {
			res = "ok"
			simunix.Inject(notes)
		}
		s.sync()
		return s.observe(res, true)
	case "api":
		if len(f) < 2 {
			return "res=bad"
		}
		res := "nil"
		switch f[1] {
		case "add":
			res = errClass(s.w.Add(s.unstrip(arg(f, 2))))
		case "remove":
			res = errClass(s.w.Remove(s.unstrip(arg(f, 2))))
		case "list":
		case "close":
			simunix.Release() // a Close never races with withheld records: they are handled first
			s.sync()
			res = errClass(s.w.Close())
			if !s.closed && !s.drainClosed() {
				res = "reader-stuck"
			}
		default:
			return "res=bad"
		}
		s.sync()
		return s.observe(res, false)
	case "racecl":
		// Close racing with the reader: withheld records are handled first; then nobody receives from Events while the
		// operation happens and kevent hands its records to the reader, which looks up the watch and — for a new entry
		// of a watched directory — blocks in sendEvent; Close runs; then the consumer drains until Events is closed.
		if len(f) < 2 {
			return "res=bad"
		}
		simunix.Release()
		s.sync()
		args := make([]string, len(f)-2)
		for i, a := range f[2:] {
			args[i] = s.unstrip(a)
		}
		if s.closed { // nothing left to race with
			ok, _ := fsop(f[1], args)
			if ok {
				return s.observe("ok", true)
			}
			return s.observe("fail", true)
		}
		n0 := simunix.Batches()
		ok, notes := fsop(f[1], args)
		res := "fail"
		if ok {
			res = "ok"
			simunix.Inject(notes)
		}
		if simunix.WaitRetrieved(s.kq, n0, 3*time.Second) {
			// between kevent's return and the watch lookup the reader makes no call this package could observe
			time.Sleep(2 * time.Millisecond)
		}
		s.w.Close()
		if !s.drainClosed() {
			res = "reader-stuck"
		}
		return s.observe(res, true)
	case "hold":
		simunix.Hold()
		return s.observe("ok", false)
	case "release":
		simunix.Release()
		s.sync()
		return s.observe("ok", false)
	case "dump":
		return "dump=" + fsnotify.VerifKqDump(s.w)
	}
	return "res=bad"
}

func arg(f []string, i int) string {
	if i < len(f) {
		if f[i] == `""` {
			return ""
		}
		return f[i]
	}
	return ""
}

func runHistories(path string) error {
	fh, err := os.Open(path)
	if err != nil {
		return err
	}
	defer fh.Close()
	out := bufio.NewWriter(os.Stdout)
	defer out.Flush()
	var s *session
	finish := func() {
		if s != nil {
			left := s.end()
			fmt.Fprintf(out, "E left=%d badclose=%d\n", len(left), simunix.BadCloses())
			s = nil
		}
	}
	sc := bufio.NewScanner(fh)
	sc.Buffer(make([]byte, 1<<20), 1<<20)
	for sc.Scan() {
		line := sc.Text()
		if i := strings.Index(line, "=>"); i >= 0 {
			line = line[:i]
		}
		line = strings.TrimSpace(line)
		if line == "" || line[0] == '#' {
			continue
		}
		f := strings.Fields(line)
		if f[0] == "H" {
			finish()
			s, err = newSession()
			if err != nil {
				return err
			}
			fmt.Fprintf(out, "%s => %s\n", line, s.observe("ok", true))
			continue
		}
		if f[0] == "E" {
			continue
		}
		if s == nil {
			return fmt.Errorf("step before H line: %s", line)
		}
		fmt.Fprintf(out, "%s => %s\n", line, s.step(f))
	}
	finish()
	return sc.Err()
}

func main() {
	scripts := flag.String("scripts", "", "directory with the repository's testdata scripts")
	hist := flag.String("hist", "", "history file to run")
	flag.Parse()
	var err error
	switch {
	case *scripts != "":
		err = runScripts(*scripts)
	case *hist != "":
		err = runHistories(*hist)
	default:
		err = errors.New("need -scripts or -hist")
	}
	if err != nil {
		fmt.Fprintln(os.Stderr, "kqh:", err)
		os.Exit(2)
	}
}
