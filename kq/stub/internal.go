// Package internal is a stub for github.com/fsnotify/fsnotify/internal in the scratch build of the kqueue backend:
// only the debug printer referenced by backend_kqueue.go is needed.
package internal

import "kqscratch/simunix"

func Debug(name string, kevent *simunix.Kevent_t) {}
