// Package simunix stands in for the subset of golang.org/x/sys/unix used by
// backend_kqueue.go, so that the kqueue backend can be compiled and run on Linux.
//
//   - Open / Close / Pipe / CloseOnExec are the real system calls, recorded in a
//     descriptor ledger (every descriptor opened through this package and not yet
//     closed).
//   - Kqueue / Kevent are simulated: registrations (ident, filter, flags, fflags)
//     per kqueue, EV_ADD / EV_DELETE / EV_CLEAR / EV_ONESHOT, pending fflags OR-ed
//     per registration until retrieved, activation order kept, Kevent blocks
//     until something is pending and returns at most len(events) records.
//   - EVFILT_READ on a pipe read end fires when the write end is closed.
//   - Inject raises NOTE_* on every EVFILT_VNODE registration whose descriptor
//     refers to the given (dev, ino), FreeBSD filt_vnode style:
//     if sfflags&hint != 0 { fflags |= hint }.
//   - WaitIdle returns exactly when a reader is blocked in Kevent with nothing
//     deliverable (no sleeps anywhere).
//
// Simulated unprivileged user: Open(O_RDONLY) of a file whose owner-read bit is
// clear fails with EACCES (the harness runs as root, the recorded expectations
// of the repository were made as an ordinary user).
package simunix

import (
	"sort"
	"sync"
	"syscall"
	"time"
)

type Errno = syscall.Errno

const (
	EINTR  = syscall.EINTR
	EACCES = syscall.EACCES
	EPERM  = syscall.EPERM
	ENOENT = syscall.ENOENT
	EBADF  = syscall.EBADF
	EINVAL = syscall.EINVAL
	EMFILE = syscall.EMFILE

	O_RDONLY   = syscall.O_RDONLY
	O_NONBLOCK = syscall.O_NONBLOCK
	O_CLOEXEC  = syscall.O_CLOEXEC
	O_EVTONLY  = 0 // darwin only; present so that system_darwin.go would compile too

	EV_ADD     = 0x1
	EV_DELETE  = 0x2
	EV_ENABLE  = 0x4
	EV_DISABLE = 0x8
	EV_ONESHOT = 0x10
	EV_CLEAR   = 0x20
	EV_ERROR   = 0x4000
	EV_EOF     = 0x8000

	EVFILT_READ  = -1
	EVFILT_VNODE = -4

	NOTE_DELETE = 0x1
	NOTE_WRITE  = 0x2
	NOTE_EXTEND = 0x4
	NOTE_ATTRIB = 0x8
	NOTE_LINK   = 0x10
	NOTE_RENAME = 0x20
	NOTE_REVOKE = 0x40
)

// Kevent_t has the field set of the FreeBSD/amd64 structure.
type Kevent_t struct {
	Ident  uint64
	Filter int16
	Flags  uint16
	Fflags uint32
	Data   int64
	Udata  *byte
}

type Timespec struct {
	Sec  int64
	Nsec int64
}

func SetKevent(k *Kevent_t, fd, mode, flags int) {
	k.Ident = uint64(fd)
	k.Filter = int16(mode)
	k.Flags = uint16(flags)
}

// ---------------------------------------------------------------- state

// Desc is one ledger entry.
type Desc struct {
	Fd     int
	Kind   string // "kq", "pipe-r", "pipe-w", "vnode"
	Serial int    // vnode descriptors: 1, 2, 3, … in order of Open since the last Reset
	Path   string // vnode descriptors: the path given to Open
	Peer   int    // pipe ends: the other end
	Dev    uint64
	Ino    uint64
}

type knote struct {
	ident   int
	filter  int16
	flags   uint16
	sfflags uint32
	fflags  uint32 // pending
	queued  bool
	eof     bool
	seq     int // attach order
	dev     uint64
	ino     uint64
	serial  int
}

type regkey struct {
	ident  int
	filter int16
}

type kqueue struct {
	fd      int
	regs    map[regkey]*knote
	queue   []*knote // activation order
	waiting int      // callers blocked in Kevent
	closed  bool
}

// Record is one kevent record as returned to the reader (log for the harness).
type Record struct {
	Serial int // 0 for the close pipe
	Fd     int
	Filter int16
	Fflags uint32
}

var (
	mu       sync.Mutex
	cond     = sync.NewCond(&mu)
	ledger   = map[int]*Desc{}
	kqs      = map[int]*kqueue{}
	serial   int
	attach   int
	held     bool
	reclog   [][]Record
	nbatches int // record batches handed to readers since the last Reset
	badClose int
	// FailOpen, when set, makes the n-th next Open fail with the given errno (fault injection; unused by default).
)

// Reset force-closes everything still in the ledger and forgets all state. Returns the descriptors that were still open.
func Reset() []Desc {
	mu.Lock()
	defer mu.Unlock()
	left := snapshot()
	for fd := range ledger {
		syscall.Close(fd)
	}
	ledger = map[int]*Desc{}
	for _, k := range kqs {
		k.closed = true
	}
	kqs = map[int]*kqueue{}
	serial, attach, held, reclog, badClose, nbatches = 0, 0, false, nil, 0, 0
	cond.Broadcast()
	return left
}

func snapshot() []Desc {
	out := make([]Desc, 0, len(ledger))
	for _, d := range ledger {
		out = append(out, *d)
	}
	sort.Slice(out, func(i, j int) bool { return out[i].Fd < out[j].Fd })
	return out
}

// Ledger returns the descriptors opened through this package and not yet closed.
func Ledger() []Desc {
	mu.Lock()
	defer mu.Unlock()
	return snapshot()
}

// BadCloses counts Close calls on descriptors that are not in the ledger (double close / foreign descriptor).
func BadCloses() int {
	mu.Lock()
	defer mu.Unlock()
	return badClose
}

// Registrations returns (serial, subscribed fflags) of every EVFILT_VNODE registration, sorted by serial.
func Registrations() [][2]int {
	mu.Lock()
	defer mu.Unlock()
	var out [][2]int
	for _, k := range kqs {
		for _, kn := range k.regs {
			if kn.filter == EVFILT_VNODE {
				out = append(out, [2]int{kn.serial, int(kn.sfflags)})
			}
		}
	}
	sort.Slice(out, func(i, j int) bool { return out[i][0] < out[j][0] })
	return out
}

// PendingCount is the number of activated, unretrieved registrations.
func PendingCount() int {
	mu.Lock()
	defer mu.Unlock()
	n := 0
	for _, k := range kqs {
		n += len(k.queue)
	}
	return n
}

// TakeLog returns and clears the log of record batches handed to readers.
func TakeLog() [][]Record {
	mu.Lock()
	defer mu.Unlock()
	l := reclog
	reclog = nil
	return l
}

// ---------------------------------------------------------------- real descriptors

func fstat(fd int) (dev, ino uint64, mode uint32, nlink uint64, err error) {
	var st syscall.Stat_t
	if err = syscall.Fstat(fd, &st); err != nil {
		return
	}
	return uint64(st.Dev), uint64(st.Ino), st.Mode, uint64(st.Nlink), nil
}

// Nlink reports the link count of an open descriptor (0 = the file is deleted).
func Nlink(fd int) int {
	_, _, _, n, err := fstat(fd)
	if err != nil {
		return -1
	}
	return int(n)
}

func Open(path string, mode int, perm uint32) (int, error) {
	// simulated unprivileged user
	var st syscall.Stat_t
	if err := syscall.Stat(path, &st); err != nil {
		return -1, err
	}
	if mode&(syscall.O_WRONLY|syscall.O_RDWR) == 0 && st.Mode&0o400 == 0 {
		return -1, EACCES
	}
	fd, err := syscall.Open(path, mode, perm)
	if err != nil {
		return -1, err
	}
	dev, ino, _, _, _ := fstat(fd)
	mu.Lock()
	serial++
	ledger[fd] = &Desc{Fd: fd, Kind: "vnode", Serial: serial, Path: path, Dev: dev, Ino: ino}
	mu.Unlock()
	return fd, nil
}

func Pipe(p []int) error {
	if len(p) != 2 {
		return EINVAL
	}
	var pp [2]int
	if err := syscall.Pipe2(pp[:], 0); err != nil {
		return err
	}
	p[0], p[1] = pp[0], pp[1]
	mu.Lock()
	ledger[pp[0]] = &Desc{Fd: pp[0], Kind: "pipe-r", Peer: pp[1]}
	ledger[pp[1]] = &Desc{Fd: pp[1], Kind: "pipe-w", Peer: pp[0]}
	mu.Unlock()
	return nil
}

func CloseOnExec(fd int) { syscall.CloseOnExec(fd) }

func Close(fd int) error {
	mu.Lock()
	defer mu.Unlock()
	d, ok := ledger[fd]
	if !ok {
		badClose++
		return EBADF
	}
	delete(ledger, fd)
	// closing a descriptor removes its registrations from every kqueue
	for _, k := range kqs {
		for key, kn := range k.regs {
			if key.ident == fd {
				k.drop(kn)
			}
		}
	}
	switch d.Kind {
	case "kq":
		if k := kqs[fd]; k != nil {
			k.closed = true
			delete(kqs, fd)
		}
	case "pipe-w":
		// EOF on the read end
		for _, k := range kqs {
			if kn := k.regs[regkey{d.Peer, EVFILT_READ}]; kn != nil {
				kn.eof = true
				k.activate(kn)
			}
		}
		if pd := ledger[d.Peer]; pd != nil {
			pd.Peer = -1
		}
	}
	err := syscall.Close(fd)
	cond.Broadcast()
	return err
}

// ---------------------------------------------------------------- simulated kqueue

func Kqueue() (int, error) {
	// reserve a real descriptor number so that it cannot collide with files
	fd, err := syscall.Open("/dev/null", syscall.O_RDONLY|syscall.O_CLOEXEC, 0)
	if err != nil {
		return -1, err
	}
	mu.Lock()
	ledger[fd] = &Desc{Fd: fd, Kind: "kq"}
	kqs[fd] = &kqueue{fd: fd, regs: map[regkey]*knote{}}
	mu.Unlock()
	return fd, nil
}

func (k *kqueue) activate(kn *knote) {
	if !kn.queued {
		kn.queued = true
		k.queue = append(k.queue, kn)
	}
}

func (k *kqueue) drop(kn *knote) {
	delete(k.regs, regkey{kn.ident, kn.filter})
	if kn.queued {
		for i, q := range k.queue {
			if q == kn {
				k.queue = append(k.queue[:i:i], k.queue[i+1:]...)
				break
			}
		}
		kn.queued = false
	}
}

func Kevent(kq int, changes, events []Kevent_t, timeout *Timespec) (int, error) {
	mu.Lock()
	defer mu.Unlock()
	k := kqs[kq]
	if k == nil || k.closed {
		return -1, EBADF
	}
	for _, c := range changes {
		key := regkey{int(c.Ident), c.Filter}
		kn := k.regs[key]
		switch {
		case c.Flags&EV_DELETE != 0:
			if kn == nil {
				return -1, ENOENT
			}
			k.drop(kn)
		case c.Flags&EV_ADD != 0:
			d := ledger[int(c.Ident)]
			if d == nil {
				return -1, EBADF
			}
			if kn == nil {
				attach++
				kn = &knote{ident: int(c.Ident), filter: c.Filter, seq: attach, dev: d.Dev, ino: d.Ino, serial: d.Serial}
				k.regs[key] = kn
				if c.Filter == EVFILT_READ && d.Kind == "pipe-r" && d.Peer == -1 {
					kn.eof = true
					k.activate(kn)
				}
			}
			kn.flags = c.Flags
			kn.sfflags = c.Fflags
			// FreeBSD kqueue_register: a modified knote keeps its pending fflags
		default:
			if kn == nil {
				return -1, ENOENT
			}
		}
	}
	cond.Broadcast()
	if len(events) == 0 {
		return 0, nil
	}
	for len(k.queue) == 0 || held {
		if k.closed {
			return -1, EBADF
		}
		k.waiting++
		cond.Broadcast()
		cond.Wait()
		k.waiting--
	}
	n := 0
	var batch []Record
	for n < len(events) && len(k.queue) > 0 {
		kn := k.queue[0]
		k.queue = k.queue[1:]
		kn.queued = false
		fl := kn.flags
		if kn.eof {
			fl |= EV_EOF
		}
		events[n] = Kevent_t{Ident: uint64(kn.ident), Filter: kn.filter, Flags: fl, Fflags: kn.fflags}
		batch = append(batch, Record{Serial: kn.serial, Fd: kn.ident, Filter: kn.filter, Fflags: kn.fflags})
		if kn.flags&EV_CLEAR != 0 {
			kn.fflags = 0
		}
		if kn.flags&EV_ONESHOT != 0 {
			delete(k.regs, regkey{kn.ident, kn.filter})
		}
		n++
	}
	reclog = append(reclog, batch)
	nbatches++
	cond.Broadcast()
	return n, nil
}

// ---------------------------------------------------------------- harness side

// Note is a vnode event to raise.
type Note struct {
	Dev, Ino uint64
	Fflags   uint32
}

// Inject raises the notes, in order, atomically with respect to readers.
// Registrations on one vnode are visited most-recently-attached first (knlist is a head-inserted SLIST).
func Inject(notes []Note) {
	mu.Lock()
	defer mu.Unlock()
	for _, nt := range notes {
		for _, k := range kqs {
			var kns []*knote
			for _, kn := range k.regs {
				if kn.filter == EVFILT_VNODE && kn.dev == nt.Dev && kn.ino == nt.Ino {
					kns = append(kns, kn)
				}
			}
			sort.Slice(kns, func(i, j int) bool { return kns[i].seq > kns[j].seq })
			for _, kn := range kns {
				if kn.sfflags&nt.Fflags != 0 {
					kn.fflags |= nt.Fflags
					k.activate(kn)
				}
			}
		}
	}
	cond.Broadcast()
}

// Hold keeps pending records undelivered (the reader stays blocked in Kevent) until Release.
func Hold() {
	mu.Lock()
	held = true
	mu.Unlock()
}

func Release() {
	mu.Lock()
	held = false
	cond.Broadcast()
	mu.Unlock()
}

func idleLocked(kq int) bool {
	k := kqs[kq]
	if k == nil || k.closed {
		return true
	}
	return k.waiting > 0 && (held || len(k.queue) == 0)
}

// WaitIdle blocks until a reader of kq is blocked in Kevent with nothing deliverable
// (or the kqueue is gone). stop, when closed, aborts the wait (returns false).
func WaitIdle(kq int, stop <-chan struct{}) bool {
	done := make(chan struct{})
	go func() {
		select {
		case <-stop:
			mu.Lock()
			cond.Broadcast()
			mu.Unlock()
		case <-done:
		}
	}()
	defer close(done)
	mu.Lock()
	defer mu.Unlock()
	for !idleLocked(kq) {
		select {
		case <-stop:
			return false
		default:
		}
		cond.Wait()
	}
	return true
}

// Batches is the number of record batches handed to readers so far.
func Batches() int {
	mu.Lock()
	defer mu.Unlock()
	return nbatches
}

// WaitRetrieved blocks until a reader has been handed a batch beyond the first n, or is idle with nothing deliverable
// (returns false then: there was nothing to retrieve), or the timeout expires.
func WaitRetrieved(kq, n int, timeout time.Duration) bool {
	expired := false
	t := time.AfterFunc(timeout, func() {
		mu.Lock()
		expired = true
		cond.Broadcast()
		mu.Unlock()
	})
	defer t.Stop()
	mu.Lock()
	defer mu.Unlock()
	for {
		if nbatches > n {
			return true
		}
		if idleLocked(kq) || expired {
			return false
		}
		cond.Wait()
	}
}

// WaitGone blocks until none of the descriptors is in the ledger any more, or the timeout expires (returns false).
// The timeout only matters when the code under test never closes them.
func WaitGone(timeout time.Duration, fds ...int) bool {
	expired := false
	t := time.AfterFunc(timeout, func() {
		mu.Lock()
		expired = true
		cond.Broadcast()
		mu.Unlock()
	})
	defer t.Stop()
	mu.Lock()
	defer mu.Unlock()
	for {
		n := 0
		for _, fd := range fds {
			if _, ok := ledger[fd]; ok {
				n++
			}
		}
		if n == 0 {
			return true
		}
		if expired {
			return false
		}
		cond.Wait()
	}
}

// TheKq returns the descriptor of the (single) live kqueue, or -1.
func TheKq() int {
	mu.Lock()
	defer mu.Unlock()
	for fd := range kqs {
		return fd
	}
	return -1
}
