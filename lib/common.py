# common.py — shared plumbing of /verif/bin/check (python3 stdlib only)
import signal, os, sys, json, time, subprocess, fcntl, re, shutil, hashlib, tempfile

VERIF = os.path.dirname(os.path.dirname(os.path.abspath(__file__)))
REPO = os.environ.get("VERIF_REPO", "/repo")
COQ = os.path.join(VERIF, "coq")
BUILD = os.path.join(VERIF, "build")
EVID = os.path.join(VERIF, "evidence")
REPLAYS = os.path.join(BUILD, "replays")

GOENV = {"GOFLAGS": "-mod=mod", "GOPROXY": "off", "GOSUMDB": "off", "GOTOOLCHAIN": "local", "CGO_ENABLED": "0"}


def env(extra=None):
    e = dict(os.environ)
    e.update(GOENV)
    if extra:
        e.update(extra)
    return e


def sh(cmd, timeout=600, cwd=None, extra_env=None, stdin=None):
    """run a shell command in its own process group; returns (rc, combined output). rc 124 on timeout (the whole group
    is killed, so that a grandchild holding the pipe cannot keep us waiting)."""
    p = subprocess.Popen(cmd, shell=isinstance(cmd, str), cwd=cwd, env=env(extra_env), stdout=subprocess.PIPE,
                         stderr=subprocess.STDOUT, stdin=subprocess.PIPE if stdin is not None else subprocess.DEVNULL,
                         start_new_session=True)
    try:
        raw, _ = p.communicate(input=stdin, timeout=timeout)
        out = raw.decode("utf-8", "replace")
        out = "\n".join(l for l in out.split("\n") if "conda.cli.condarc" not in l)
        return p.returncode, out
    except subprocess.TimeoutExpired:
        try:
            os.killpg(p.pid, signal.SIGKILL)
        except Exception:
            pass
        try:
            raw, _ = p.communicate(timeout=10)
        except Exception:
            raw = b""
        out = (raw or b"").decode("utf-8", "replace")
        return 124, out + "\n[timeout after %ss]" % timeout


class Lock:
    """one build at a time in /verif/build and /verif/coq (checks may be started in parallel)"""

    def __init__(self, name="build"):
        os.makedirs(BUILD, exist_ok=True)
        self.path = os.path.join(BUILD, "." + name + ".lock")

    def __enter__(self):
        self.f = open(self.path, "w")
        fcntl.flock(self.f, fcntl.LOCK_EX)
        return self

    def __exit__(self, *a):
        fcntl.flock(self.f, fcntl.LOCK_UN)
        self.f.close()


def repo_fingerprint():
    """hash of the .go files of the working tree (what the run was tied to)"""
    h = hashlib.sha256()
    for root, dirs, files in os.walk(REPO):
        dirs[:] = sorted(d for d in dirs if d not in (".git",))
        for f in sorted(files):
            if f.endswith(".go") or f in ("go.mod", "go.sum"):
                p = os.path.join(root, f)
                h.update(p.encode())
                with open(p, "rb") as fh:
                    h.update(fh.read())
    return h.hexdigest()[:16]


# ------------------------------------------------------------------ Coq

def ensure_makefile():
    mk = os.path.join(COQ, "Makefile")
    cp = os.path.join(COQ, "_CoqProject")
    if not os.path.exists(mk) or os.path.getmtime(mk) < os.path.getmtime(cp):
        sh("coq_makefile -f _CoqProject -o Makefile", cwd=COQ)


def ensure_gen_placeholders():
    """make needs every file of _CoqProject to exist for coqdep"""
    os.makedirs(os.path.join(COQ, "gen"), exist_ok=True)


def coq_make(targets, timeout=1500):
    """make the given .vo targets (paths relative to coq/); returns (ok, log)"""
    ensure_makefile()
    rc, out = sh("timeout %d make -j16 %s" % (timeout, " ".join(targets)), cwd=COQ, timeout=timeout + 30)
    return rc == 0, out


def coq_static(timeout=1500):
    """the hand-written development (no dependency on generated files)"""
    ts = [l.strip() + "o" for l in open(os.path.join(COQ, "_CoqProject")) if l.startswith("theories/") and l.strip().endswith(".v")]
    return coq_make(ts, timeout)


def count_statements(vfile):
    """names of Theorem/Lemma/Corollary/Example statements in a .v file, with their line numbers"""
    out = []
    with open(vfile) as f:
        for i, l in enumerate(f, 1):
            m = re.match(r"\s*(Theorem|Lemma|Corollary|Example)\s+([A-Za-z0-9_']+)", l)
            if m:
                out.append((m.group(2), i, m.group(1)))
    return out


def failing_statement(vfile_rel, log):
    """from a coqc error message 'File "./obl/X.v", line N' find the statement that contains line N"""
    m = re.search(r'File "\./%s", line (\d+)' % re.escape(vfile_rel), log)
    if not m:
        return None
    line = int(m.group(1))
    cur = None
    for name, ln, kind in count_statements(os.path.join(COQ, vfile_rel)):
        if ln <= line:
            cur = name
    return cur


def proof_obligations(files, log, ok):
    """(obligations, discharged, failed_names) for the given .v files after a make run"""
    total, done, failed = 0, 0, []
    hit_failure = False
    for f in files:
        st = count_statements(os.path.join(COQ, f))
        total += len(st)
        vo = os.path.join(COQ, f + "o")
        if ok or (os.path.exists(vo) and os.path.getmtime(vo) >= os.path.getmtime(os.path.join(COQ, f)) and not hit_failure
                  and ('File "./%s"' % f) not in log):
            done += len(st)
            continue
        fs = failing_statement(f, log)
        if fs is not None:
            hit_failure = True
            failed.append(f + ":" + fs)
            for name, ln, kind in st:
                if name == fs:
                    break
                done += 1
        else:
            failed.append(f + ":(not built)")
    return total, done, failed


def assumptions_from_log(log):
    """the Print Assumptions output of a props file"""
    closed = len(re.findall(r"Closed under the global context", log))
    axioms = re.findall(r"^Axioms:\n((?:.+\n)+)", log, re.M)
    return closed, axioms


def props_assumptions(prop_rel):
    """re-run coqc on a props file to capture its Print Assumptions output (cheap: seconds)"""
    rc, out = sh("timeout 600 coqc -Q theories Fsn -Q gen FsnGen -Q obl FsnObl -Q props FsnProps -w -notation-overridden %s" % prop_rel,
                 cwd=COQ, timeout=630)
    closed, axioms = assumptions_from_log(out)
    return rc == 0, closed, axioms, out


# ------------------------------------------------------------------ translator / harness builds

def build_xlate():
    binp = os.path.join(VERIF, "bin", "xlate")
    srcs = [os.path.join(VERIF, "xlate", f) for f in os.listdir(os.path.join(VERIF, "xlate")) if f.endswith(".go") or f.startswith("go.")]
    if os.path.exists(binp) and all(os.path.getmtime(binp) >= os.path.getmtime(s) for s in srcs):
        return True, ""
    rc, out = sh("go build -o %s ." % binp, cwd=os.path.join(VERIF, "xlate"), timeout=600)
    return rc == 0, out


def run_xlate(what="tables,names,consts,cfg", goout=None):
    """regenerate coq/gen from the current working tree; only files whose content changed are rewritten"""
    ok, out = build_xlate()
    if not ok:
        return False, "xlate build failed:\n" + out
    tmp = tempfile.mkdtemp(prefix="verif-gen-")
    try:
        cmd = "%s -repo %s -out %s -what %s" % (os.path.join(VERIF, "bin", "xlate"), REPO, tmp, what)
        if goout:
            cmd += " -goout " + goout
        rc, out = sh(cmd, cwd=VERIF, timeout=300)
        if rc != 0:
            return False, out
        gen = os.path.join(COQ, "gen")
        os.makedirs(gen, exist_ok=True)
        for f in os.listdir(tmp):
            src, dst = os.path.join(tmp, f), os.path.join(gen, f)
            new = open(src, "rb").read()
            if not os.path.exists(dst) or open(dst, "rb").read() != new:
                with open(dst, "wb") as fh:
                    fh.write(new)
        return True, out
    finally:
        shutil.rmtree(tmp, ignore_errors=True)


def build_harness(cmd_name, tags="verif"):
    """go build harness/cmd/<name> against /repo's working tree with the hooks on"""
    hdir = os.path.join(VERIF, "harness")
    shutil.copyfile(os.path.join(REPO, "go.sum"), os.path.join(hdir, "go.sum"))
    outp = os.path.join(BUILD, "bin", cmd_name)
    os.makedirs(os.path.dirname(outp), exist_ok=True)
    rc, out = sh("go build -tags %s -o %s ./cmd/%s" % (tags, outp, cmd_name), cwd=hdir, timeout=600)
    return rc == 0, out, outp


def build_ocaml(workdir, extract_v, ml_files, exe, extra_Q=""):
    """coqc the extraction file inside workdir, then compile driver"""
    os.makedirs(workdir, exist_ok=True)
    rc, out = sh("timeout 600 coqc -Q %s/theories Fsn -Q %s/gen FsnGen %s %s/extract/%s" % (COQ, COQ, extra_Q, COQ, extract_v),
                 cwd=workdir, timeout=630)
    if rc != 0:
        return False, "extraction failed:\n" + out
    for m in ml_files:
        shutil.copyfile(os.path.join(VERIF, "driver", m), os.path.join(workdir, m))
    mods = sorted(f for f in os.listdir(workdir) if f.endswith(".mli"))
    rc, out2 = sh("ocamlfind ocamlopt -w -a -O2 %s -o %s 2>&1" % (" ".join(ml_order(workdir, ml_files)), exe), cwd=workdir, timeout=600)
    return rc == 0, out + out2


def ml_order(workdir, drivers):
    """extracted module(s) first (mli then ml), then drivers"""
    ex = sorted(f[:-3] for f in os.listdir(workdir) if f.endswith(".ml") and f not in drivers)
    out = []
    for m in ex:
        if os.path.exists(os.path.join(workdir, m + ".mli")):
            out.append(m + ".mli")
        out.append(m + ".ml")
    return out + list(drivers)


# ------------------------------------------------------------------ results

class Run:
    def __init__(self, pid, tier):
        self.pid, self.tier = pid, tier
        self.seed = int(os.environ.get("VERIF_SEED", "1") or "1")
        self.t0 = time.time()
        self.violations = []     # (key, description, replay dict)
        self.known = load_known_findings(pid)
        self.cov = {}
        self.assumptions = []
        os.makedirs(REPLAYS, exist_ok=True)
        os.makedirs(EVID, exist_ok=True)

    def violation(self, key, what, replay, nofail=False):
        self.violations.append({"key": key, "what": what, "replay": replay, "nofail": nofail})

    def finish(self, level="proof"):
        """prints KNOWN-FINDING / VIOLATION lines, writes evidence, returns exit status"""
        status = 0
        nviol = 0
        seen_known = set()
        for v in self.violations:
            k = v["key"]
            if k in self.known:
                if k not in seen_known:
                    print("KNOWN-FINDING: property=%s %s" % (self.pid, self.known[k]))
                    seen_known.add(k)
                continue
            nviol += 1
            rp = os.path.join(REPLAYS, "%s-%s-%d.json" % (self.pid, re.sub(r"[^A-Za-z0-9_.-]", "_", k)[:60], nviol))
            with open(rp, "w") as f:
                json.dump({"property": self.pid, "key": k, "what": v["what"], "replay": v["replay"],
                           "repo_fingerprint": repo_fingerprint()}, f, indent=1, default=str)
            line = "VIOLATION property=%s replay=%s" % (self.pid, rp)
            if v["nofail"]:
                line += " no-failing-input-found"
            print(line)
            status = 1
            if nviol >= 5:
                break
        ev = {
            "property_id": self.pid, "tier": self.tier, "seed": self.seed, "level": level,
            "coverage": self.cov, "assumptions": self.assumptions,
            "wall_s": round(time.time() - self.t0, 2), "violations": nviol,
        }
        ev["coverage"]["known_findings_reproduced"] = sorted(seen_known)
        ev["coverage"]["repo_fingerprint"] = repo_fingerprint()
        with open(os.path.join(EVID, self.pid + ".json"), "w") as f:
            json.dump(ev, f, indent=1, default=str)
        if status == 0:
            print("OK property=%s tier=%s wall=%.1fs" % (self.pid, self.tier, time.time() - self.t0))
        return status


def coqchk_props(run):
    """thorough tier: the independent checker re-checks the compiled statement file of this property and everything it
    depends on (theories, generated files, obligations, std++ and the standard library) and prints the axioms"""
    vo = os.path.join(COQ, "props", run.pid + ".vo")
    with Lock():
        if not os.path.exists(vo):
            run.cov["coqchk"] = {"rc": None, "note": "props/%s.vo was not built (obligation failed earlier)" % run.pid}
            return
        rc, out = sh("timeout 1800 coqchk -silent -o -Q theories Fsn -Q gen FsnGen -Q obl FsnObl -Q props FsnProps FsnProps.%s" % run.pid,
                     cwd=COQ, timeout=1830)
    m = re.search(r"\* Axioms:\s*(.*?)\n\s*\n", out, re.S)
    axioms = m.group(1).strip() if m else "?"
    run.cov["coqchk"] = {"rc": rc, "axioms": axioms, "output_tail": out[-900:]}
    if rc not in (0, 124):
        run.violation("coqchk", "coqchk rejects the compiled development of %s" % run.pid,
                      {"theorem": "props/%s.vo closure" % run.pid, "log": out[-3000:]}, nofail=True)
    elif rc == 0 and axioms != "<none>":
        run.violation("coqchk-axioms", "the compiled development of %s depends on axioms: %s" % (run.pid, axioms),
                      {"theorem": "props/%s.vo closure" % run.pid, "axioms": axioms}, nofail=True)


def load_known_findings(pid):
    out = {}
    p = os.path.join(VERIF, "KNOWN_FINDINGS.txt")
    if not os.path.exists(p):
        return out
    for l in open(p):
        l = l.strip()
        m = re.match(r"finding:\s+property=(\S+)\s+key=(\S+)\s+(.*)", l)
        if m and m.group(1) == pid:
            out[m.group(2)] = m.group(3)
    return out


TRUSTED_COMMON = [
    "Coq 8.16.1 kernel incl. vm_compute (no native_compute); coqchk re-check in thorough tier",
    "no axioms declared; Print Assumptions output recorded under coverage.print_assumptions",
]
