# tables.py — checks for C15 (flag tables) and C16 (Op / Event predicates and renderings)
import os, re, json, time
from common import *

EXTRACT_DIRECTIVES = ["ExtrOcamlBasic: bool,option,unit,list,prod,sumbool,sumor -> OCaml natives",
                      "ExtrOcamlString: ascii -> char, string -> char list",
                      "numbers are not remapped (N/positive/nat stay Coq datatypes)"]


def run_tab(run, what, files):
    """common pipeline: static proofs, regenerate facts, obligations + property theorems, correspondence.
    what: 'c15' or 'c16'; files: [obl, props] relative to coq/"""
    pid = run.pid
    notes = []
    with Lock():
        ok_static, log_static = coq_static()
        okx, logx = run_xlate("tables,names,consts", goout=os.path.join(BUILD, "foreign", "main.go"))
        ok, log = False, ""
        if ok_static and okx:
            ok, log = coq_make([files[-1] + "o"])
        total, done, failed = proof_obligations(files, log, ok)
        pa_closed, pa_axioms = 0, []
        if ok:
            okp, pa_closed, pa_axioms, _ = props_assumptions(files[-1])
        # correspondence: real functions vs generated model (GEN) vs documented mapping (DOC)
        okh, logh, tabbin = build_harness("tab")
        wd = os.path.join(BUILD, "tab")
        okd, logd = build_ocaml(wd, "ExtractTab.v", ["tabdriver.ml"], "tabdriver")
    obs = os.path.join(wd, "obs-%s.txt" % what)
    mism, counts, summary = [], {}, ""
    harness_ok = okh and okd
    if harness_ok:
        rc, out = sh("%s -what %s -seed %d -tier %s > %s" % (tabbin, what, run.seed, run.tier, obs), timeout=900)
        if rc != 0:
            harness_ok = False
            logh += out
        if what == "c15" and harness_ok:
            fdir = os.path.join(BUILD, "foreign")
            with open(os.path.join(fdir, "go.mod"), "w") as f:
                f.write("module verif/foreign\n\ngo 1.17\n")
            rc, out = sh("go run . >> %s" % obs, cwd=fdir, timeout=600)
            if rc != 0 or "FOREIGN-ERROR" in open(obs).read()[-2000:]:
                notes.append("foreign (kqueue/windows) function copy did not build or run: " + out[-500:])
                run.violation("foreign-copy-build", "the kqueue/Windows table functions could not be copied and compiled on Linux",
                              {"correspondence": "tab/foreign", "log": out[-2000:]}, nofail=True)
    if harness_ok:
        rc, out = sh("./tabdriver %s" % obs, cwd=wd, timeout=900)
        for l in out.split("\n"):
            if l.startswith("MISMATCH"):
                mism.append(l)
            elif l.startswith("COUNT"):
                _, k, v = l.split()
                counts[k] = int(v)
            elif l.startswith("SUMMARY"):
                summary = l
    else:
        run.violation("harness-build", "correspondence harness or extracted model did not build",
                      {"correspondence": "tab", "harness_log": logh[-3000:], "driver_log": (logd if not okd else "")[-3000:]}, nofail=True)

    doc_m = [m for m in mism if m.split()[1] == "DOC"]
    gen_m = [m for m in mism if m.split()[1] == "GEN"]
    # DOC mismatches are concrete failing inputs of the property on the implementation
    seen = set()
    for m in doc_m:
        kind = m.split()[2]
        if kind in seen:
            continue
        seen.add(kind)
        run.violation("doc-" + kind, "implementation differs from the documented mapping: " + m,
                      {"kind": kind, "line": m, "how": "bin/check %s --replay <this file>" % pid})
    if not ok_static:
        run.violation("static-proof", "hand-written Coq development does not build", {"theorem": "theories/*", "log": log_static[-3000:]}, nofail=True)
    elif not okx:
        run.violation("xlate", "translator failed on the current tree", {"log": logx[-3000:]}, nofail=True)
    elif not ok:
        if not doc_m:
            run.violation("obligation-" + ",".join(failed)[:80], "proof obligation no longer checks: " + ", ".join(failed),
                          {"failed": failed, "log": log[-3000:], "searched": counts}, nofail=True)
        else:
            notes.append("failed obligations: " + ", ".join(failed))
    if gen_m and not doc_m:
        run.violation("gen-" + gen_m[0].split()[2], "generated model differs from the implementation (translator tie broken): " + gen_m[0],
                      {"lines": gen_m[:10]}, nofail=True)

    evals = sum(counts.values())
    run.cov.update({
        "obligations": total, "discharged": done,
        "checker_cmd": "make -C coq %so  (coqc 8.16.1; generic theorems in theories/, instantiation in %s, statements in %s)" % (files[-1], files[0], files[-1]),
        "trusted_base": TRUSTED_COMMON + ["translator /verif/xlate (cross-checked against the executed functions on every run)",
                                          "extraction: " + "; ".join(EXTRACT_DIRECTIVES), "OCaml 4.13.1, driver/tabdriver.ml",
                                          "kqueue/Windows functions are executed as copies compiled on Linux; their kernels are not run"],
        "print_assumptions": {"closed_under_global_context": pa_closed, "axioms": pa_axioms},
        "failed_obligations": failed,
        "evaluations": evals, "distinct_nontrivial": evals - counts.get("defaultops", 0),
        "rule": "every observation line is a distinct input (exhaustive enumerations plus seeded random words); non-trivial = all but the constant probes",
        "observation_counts": counts, "driver_summary": summary, "gen_mismatches": len(gen_m), "doc_mismatches": len(doc_m),
        "exhaustive": True,
        "samples": sample_lines(obs) if harness_ok else [],
        "notes": notes,
    })
    run.assumptions += ["documented mapping in coq/theories/Doc.v is the reference", "Go fmt %-13s/%q and strconv.Quote are trusted (supplied as data)"]


def sample_lines(path, n=6):
    out, seen = [], set()
    try:
        with open(path) as f:
            for i, l in enumerate(f):
                k = l.split(" ", 1)[0]
                if k not in seen or i % 50021 == 7:
                    seen.add(k)
                    out.append(l.strip()[:200])
                if len(out) >= 24:
                    break
    except OSError:
        pass
    return out


def check_C15(run):
    run_tab(run, "c15", ["obl/OblC15.v", "props/C15.v"])


def check_C16(run):
    run_tab(run, "c16", ["obl/OblC16.v", "props/C16.v"])


def replay(run, path):
    d = json.load(open(path))
    print(json.dumps(d, indent=1))
    if run.pid == "C15":
        check_C15(run)
    else:
        check_C16(run)
