# ino.py — checks that rest on the inotify system model (Watcher.v / System.v) and the MITM harness `ino`:
# C01 C02 C03 C04 C08 C09 C10 C11 C12 C19
import os, re, json, time, glob, shutil, subprocess
from concurrent.futures import ThreadPoolExecutor
from common import *

WD = os.path.join(BUILD, "ino")
CORPUS = os.path.join(VERIF, "corpus")

EXTRACT_DIRECTIVES = ["ExtrOcamlBasic: bool,option,unit,list,prod,sum,sumbool,sumor -> OCaml natives",
                      "ExtrOcamlString: ascii -> char, string -> char list",
                      "numbers are not remapped (N/positive/nat stay Coq datatypes); std++ gmap extracted as is"]

# per property: generator families (with weights for the number of histories), the mismatch kinds whose presence is a
# concrete failing input of THAT property ("hard"), and kinds that only show the tie model<->code is broken ("soft").
PLAN = {
    "C01": dict(families=["mix", "names", "delay", "rename", "scen", "fault", "full"],
                hard=["MISMATCH out-missing", "MISMATCH out-name", "MISMATCH out-op", "MISMATCH decode-count", "MISMATCH reader-stalled", "MISMATCH reader-reader-exited", "MISMATCH stalled",
                      "SPEC C01-delete-self-suppressed-but-parent-never-reported"],
                soft=[]),
    "C02": dict(families=["mix", "fault", "delay", "scen"],
                hard=["MISMATCH out-extra", "SPEC C02-empty-op", "SPEC C02-name-not-watched"], soft=[]),
    "C03": dict(families=["mix", "names", "rename", "scen"], hard=["MISMATCH out-order", "SPEC C03-rename-not-immediately-followed-by-create"], soft=[]),
    "C04": dict(families=["alias", "mix", "delay", "scen"],
                hard=["MISMATCH api-add", "MISMATCH api-remove", "MISMATCH list", "SPEC remove-panics", "SPEC remove-unlisted-not-nonexistent",
                      "SPEC remove-listed-nonexistent", "SPEC list-duplicate", "SPEC dangling-path-entry",
                      "KERNEL auto-record-unpredicted", "KERNEL model-queued-more-than-real"],
                soft=["MISMATCH tpath"]),
    "C08": dict(families=["names", "mix", "alias", "scen"], hard=["MISMATCH out-name", "SPEC C08-nul-in-name"], soft=[]),
    "C09": dict(families=["delay", "alias", "scen"],
                hard=["MISMATCH list", "MISMATCH api-remove", "MISMATCH api-add", "MISMATCH out-extra", "MISMATCH out-missing",
                      "SPEC C01-delete-self-suppressed-but-parent-never-reported", "KERNEL auto-record-unpredicted",
                      "KERNEL model-queued-more-than-real"],
                soft=["MISMATCH tpath", "MISMATCH twd"]),
    "C10": dict(families=["delay", "mix", "fault", "scen"], hard=["MISMATCH out-errors", "SPEC C10-error-on-benign-history", "MISMATCH out-missing-after-overflow"], soft=[]),
    "C11": dict(families=["rename", "fault", "scen"],
                hard=["MISMATCH out-from", "SPEC C11-lost-partner", "SPEC C11-false-partner", "SPEC C11-ring-overrun"], soft=[]),
    "C12": dict(families=["alias", "delay", "mix", "scen"],
                hard=["SPEC C12-kernel-vs-tables", "SPEC C12-table-sizes", "SPEC dangling-path-entry", "MISMATCH marks",
                      "KERNEL model-queued-more-than-real", "KERNEL auto-record-unpredicted", "KERNEL auto-record-differs"],
                soft=["MISMATCH twd", "MISMATCH tpath", "MISMATCH twd-flags"]),
    "C19": dict(families=["recurse"],
                # the kernel's own watch set (fdinfo marks, the IN_IGNORED it queues when the library removes a watch) is an
                # external observable: a directory that must still be watched and is not, or the reverse, is the failure itself
                hard=["MISMATCH out-missing", "MISMATCH out-extra", "MISMATCH out-name", "MISMATCH out-errors", "MISMATCH list", "MISMATCH api-remove",
                      "MISMATCH api-add", "MISMATCH out-order", "MISMATCH out-from", "SPEC C02-name-not-watched",
                      "MISMATCH marks", "KERNEL auto-record-unpredicted", "KERNEL model-queued-more-than-real"],
                soft=["MISMATCH twd", "MISMATCH tpath"]),
}

EXTRA_CONC = {"C03": "absorb,buffers", "C10": "pending,readerr", "C19": "react"}

PROPS_FILES = {
    "C01": ["props/C01.v"], "C02": ["props/C02.v"], "C03": ["props/Bridge2.v", "props/C03.v"], "C04": ["props/C04.v"], "C08": ["props/C08.v"],
    "C09": ["props/C09.v"], "C10": ["props/C10.v"], "C11": ["props/C11.v"], "C12": ["props/Bridge2.v", "props/C12.v"], "C19": ["props/C19.v"],
}


def build_all():
    """harness + extracted model; returns (ok, log, inobin)"""
    okh, logh, inobin = build_harness("ino")
    okd, logd = build_ocaml(WD, "ExtractIno.v", ["inodriver.ml"], "inodriver")
    return okh and okd, (logh if not okh else "") + (logd if not okd else ""), inobin


def run_shard(inobin, fam, seed, n, steps, tag):
    hist = os.path.join(WD, "h-%s.txt" % tag)
    scripts = os.path.join(WD, "s-%s.txt" % tag)
    rc, out = sh("%s -seed %d -n %d -steps %d -family %s -out %s -scripts-out %s" % (inobin, seed, n, steps, fam, hist, scripts),
                 timeout=900, cwd=WD)
    rc2, out2 = sh("./inodriver %s" % hist, cwd=WD, timeout=900)
    return dict(fam=fam, seed=seed, hist=hist, scripts=scripts, harness_rc=rc, harness_out=out[-2000:], driver_rc=rc2, driver_out=out2)


def run_pathlex(inobin, maxlen, seed, tag):
    """direct sweep: filepath.Clean (what Add / Remove apply to their argument) against PathLex.clean of the model"""
    hist = os.path.join(WD, "pl-%s.txt" % tag)
    rc, out = sh("%s -pathlex %d -seed %d -out %s" % (inobin, maxlen, seed, hist), timeout=600, cwd=WD)
    rc2, out2 = sh("./inodriver %s" % hist, cwd=WD, timeout=600)
    return dict(fam="pathlex", seed=seed, hist=hist, scripts="", harness_rc=rc, harness_out=out[-2000:], driver_rc=rc2, driver_out=out2)


def run_script_file(inobin, script_path, tag, stall_confirmed=False):
    hist = os.path.join(WD, "h-%s.txt" % tag)
    rc, out = sh("%s%s -script %s -out %s" % ("VERIF_STALL_CONFIRMED=1 " if stall_confirmed else "", inobin, script_path, hist), timeout=300, cwd=WD)
    rc2, out2 = sh("./inodriver %s" % hist, cwd=WD, timeout=300)
    return dict(fam="script", seed=0, hist=hist, scripts=script_path, harness_rc=rc, harness_out=out[-2000:], driver_rc=rc2, driver_out=out2)


def parse_driver(out):
    lines, stats, kindhist = [], {}, {}
    for l in out.split("\n"):
        if l.startswith(("MISMATCH ", "SPEC ", "KERNEL ")):
            lines.append(l)
        elif l.startswith("STAT "):
            _, k, v = l.split()
            stats[k] = stats.get(k, 0) + int(v)
        elif l.startswith("KINDHIST "):
            p = l.split()
            kindhist[p[1] + " " + p[2]] = [int(x) for x in p[3].split(",")]
    return lines, stats, kindhist


def read_scripts(path):
    """{id: (header, [step lines])}"""
    out, cur = {}, None
    for l in open(path):
        l = l.rstrip("\n")
        if l.startswith("S "):
            cur = int(l.split()[1])
            out[cur] = (l, [])
        elif l == "end":
            cur = None
        elif cur is not None:
            out[cur][1].append(l)
    return out


def write_script(path, header, steps):
    with open(path, "w") as f:
        f.write(header + "\n")
        for s in steps:
            f.write(s + "\n")
        f.write("end\n")


def kind_present(inobin, header, steps, kind, tag):
    p = os.path.join(WD, "min-%s.script" % tag)
    write_script(p, header, steps)
    r = run_script_file(inobin, p, "min-" + tag, stall_confirmed=True)
    lines, _, kh = parse_driver(r["driver_out"])
    if r["harness_rc"] != 0:
        return kind.startswith("MISMATCH crash"), lines
    return kind in kh, lines


def minimise(inobin, header, steps, kind, tag, budget=120):
    """delta debugging over script steps, keeping the mismatch kind present"""
    t0 = time.time()
    ok, _ = kind_present(inobin, header, steps, kind, tag)
    if not ok:
        return steps, False       # not reproducible from the script alone
    n = 2
    while len(steps) >= 2 and time.time() - t0 < budget:
        chunk = max(1, len(steps) // n)
        reduced = False
        for i in range(0, len(steps), chunk):
            cand = steps[:i] + steps[i + chunk:]
            if cand and kind_present(inobin, header, cand, kind, tag)[0]:
                steps = cand
                n = max(n - 1, 2)
                reduced = True
                break
        if not reduced:
            if chunk == 1:
                break
            n = min(len(steps), n * 2)
    return steps, True


def key_for(kind):
    return re.sub(r"[^A-Za-z0-9]+", "-", kind).strip("-")


def corpus_scripts(pid):
    return sorted(glob.glob(os.path.join(CORPUS, "*.script")) + glob.glob(os.path.join(CORPUS, "known", "*.script")))


def run_ino_property(run, quick_n=96, thorough_n=2400, steps=45):
    pid = run.pid
    plan = PLAN[pid]
    files = PROPS_FILES[pid]
    notes = []
    os.makedirs(WD, exist_ok=True)
    with Lock():
        ok_static, log_static = coq_static()
        ok, log = (False, "")
        okx, logx = True, ""
        if pid == "C19":      # C19 also uses a fact generated from the source (register before send)
            okx, logx = run_xlate("cfg,consts")
            files = ["obl/OblC19.v"] + files
        if ok_static and okx:
            ok, log = coq_make([f + "o" for f in files if f.startswith("props/")])
        elif not okx:
            log = logx
        total, done, failed = proof_obligations(files, log, ok)
        pa_closed, pa_axioms = 0, []
        if ok:
            for pf in [f for f in files if f.startswith("props/")]:
                _, c1, a1, _ = props_assumptions(pf)
                pa_closed += c1
                pa_axioms += a1
        okb, logb, inobin = build_all()
    if not ok_static or not ok:
        run.violation("proof-" + ",".join(failed)[:80], "Coq obligation no longer checks: " + ", ".join(failed),
                      {"theorem": failed, "log": (log_static if not ok_static else log)[-3000:]}, nofail=True)
    if not okb:
        run.violation("harness-build", "the harness (hooks) or the extracted model no longer builds against the working tree",
                      {"correspondence": "ino", "log": logb[-3000:]}, nofail=True)
        run.cov.update({"obligations": total, "discharged": done, "checker_cmd": "make -C coq " + files[-1] + "o", "trusted_base": TRUSTED_COMMON,
                        "evaluations": 1, "distinct_nontrivial": 0, "samples": []})
        return
    # ---- corpus first, then the property's families
    nper = quick_n if run.tier == "quick" else thorough_n
    jobs = []
    for i, sp in enumerate(corpus_scripts(pid)):
        jobs.append(("script", sp, "c%d" % i))
    shards = []
    for fam in plan["families"]:
        k = 8 if run.tier == "quick" else 16
        n_each = max(1, nper // k)
        if fam == "full":        # each history is one 64 KiB read (about 2000 records): a few are enough
            k, n_each = (3, 1) if run.tier == "quick" else (8, 3)
        for j in range(k):
            shards.append((fam, run.seed * 1000 + j * 17 + hash_fam(fam), n_each, steps, "%s-%s-%d" % (pid, fam, j)))
    results = []
    with ThreadPoolExecutor(max_workers=14) as ex:
        futs = [ex.submit(run_script_file, inobin, sp, "%s-%s" % (pid, tag)) for (_, sp, tag) in jobs]
        futs += [ex.submit(run_shard, inobin, *s) for s in shards]
        plf = ex.submit(run_pathlex, inobin, 7 if run.tier == "quick" else 9, run.seed, pid) if pid in ("C04", "C08") else None
        for f in futs:
            results.append(f.result())
        plr = plf.result() if plf else None
    stats, allkinds, samples = {}, {}, []
    crash = []
    for r in results:
        lines, st, kh = parse_driver(r["driver_out"])
        for k, v in st.items():
            stats[k] = stats.get(k, 0) + v
        for kind, hs in kh.items():
            allkinds.setdefault(kind, []).append((r, hs, [l for l in lines if l.startswith(kind + " ")]))
        if r["harness_rc"] != 0:
            crash.append(r)
    if plr:
        pl_lines, pl_st, _ = parse_driver(plr["driver_out"])
        stats["pathlex_cases"] = pl_st.get("pathlex_cases", 0)
        if plr["harness_rc"] != 0 or plr["driver_rc"] != 0 or stats["pathlex_cases"] == 0:
            run.violation("pathlex-sweep-failed", "the direct sweep of filepath.Clean against PathLex.clean did not run",
                          {"correspondence": "pathlex", "output": plr["harness_out"] + plr["driver_out"][-1500:]}, nofail=True)
        elif pl_lines:
            run.violation("pathlex-clean", "PathLex.clean of the model differs from filepath.Clean: the spelling theorems do not speak about the function the code calls",
                          {"correspondence": "pathlex", "mismatches": pl_lines[:8]}, nofail=True)
    # a harness crash (e.g. a panic in the reader goroutine) is itself an observation
    for r in crash[:1]:
        run.violation("harness-crash-" + r["fam"], "the library crashed or the harness failed while executing a history (family %s seed %d)" % (r["fam"], r["seed"]),
                      {"family": r["fam"], "seed": r["seed"], "output": r["harness_out"], "history_so_far": tail_file(r["hist"], 60)})
    hard_found = False
    for kind in plan["hard"]:
        if kind not in allkinds:
            continue
        r, hs, lines = allkinds[kind][0]
        if key_for(kind) in run.known:      # a recorded finding: reproduced, reported as such, no replay needed
            run.violation(key_for(kind), "%s: %s" % (kind, lines[0] if lines else ""), {})
            continue
        hard_found = True
        rep = make_replay(inobin, r, hs[0], kind, lines, pid)
        run.violation(key_for(kind) + rep.get("signature", ""), "%s: %s" % (kind, lines[0] if lines else ""), rep)
    if not hard_found:
        for kind in plan["soft"]:
            if kind in allkinds:
                r, hs, lines = allkinds[kind][0]
                rep = make_replay(inobin, r, hs[0], kind, lines, pid)
                rep["correspondence"] = "model and implementation differ in an internal observable; no property-level failure found"
                run.violation(key_for(kind), "%s: %s" % (kind, lines[0] if lines else ""), rep, nofail=True)
                break
    # protocol-level part of this property (buffered order for C03, life after overflow / read errors for C10): scenarios
    # of the conc harness on the real Watcher
    conc_scens = 0
    if pid in EXTRA_CONC:
        import conc
        os.makedirs(conc.WD, exist_ok=True)
        with Lock():
            okc, logc, cbin = build_harness("conc")
        if okc:
            rcc, outc = conc.run_conc(cbin, EXTRA_CONC[pid], run.seed, run.tier, pid, owner=pid)
            cf, cs, _, cpanic = conc.parse(outc)
            conc_scens = len(cs)
            seen = set()
            for f in cf:
                if f["prop"] == pid and f["clause"] not in seen:
                    seen.add(f["clause"])
                    idx = outc.find(f["line"])
                    sc = [l for l in outc[:idx].split("\n") if l.startswith("SCEN ")]
                    run.violation(f["clause"], "%s: %s %s" % (pid, f["clause"], f["detail"]),
                                  {"clause": f["clause"], "detail": f["detail"], "scenario": sc[-1] if sc else "", "seed": run.seed,
                                   "how": "build/bin/conc -seed %d -what %s" % (run.seed, EXTRA_CONC[pid])})
            if cpanic:
                run.violation("crash", "the library crashed during a protocol scenario: " + cpanic, {"output_tail": outc[-2000:]})
    foreign = sorted(k for k in allkinds if k not in plan["hard"] and k not in plan["soft"])
    nh = stats.get("histories_plain", 0) + stats.get("histories_recursive", 0)
    nontrivial = nh  # every history ends with a forced drain+list and contains API and fs activity
    for r in results[:3]:
        samples.append(head_history(r["hist"], 14))
    run.cov.update({
        "obligations": total, "discharged": done,
        "checker_cmd": "make -C coq %so (coqc 8.16.1); correspondence: build/bin/ino (go build -tags verif against /repo) + build/ino/inodriver (extracted model)" % files[-1],
        "trusted_base": TRUSTED_COMMON + ["extraction: " + "; ".join(EXTRACT_DIRECTIVES), "OCaml 4.13.1, driver/inodriver.ml",
                                          "Go harness harness/cmd/ino (records observations; hooks verif_hooks*.go in /repo)",
                                          "abstract inotify kernel contract of Watcher.v/System.v (checked against /proc/self/fdinfo and the raw stream on every step)"],
        "print_assumptions": {"closed_under_global_context": pa_closed, "axioms": pa_axioms},
        "failed_obligations": failed,
        "evaluations": nh, "distinct_nontrivial": nontrivial,
        "rule": "one evaluation = one generated history (distinct PRNG stream per history; families: %s) executed on the real library through the MITM harness and replayed on the extracted model; every history contains API calls, filesystem activity and at least one forced handling step, so all count as non-trivial" % ",".join(plan["families"]),
        "traces_validated_against_impl": nh,
        "distribution": stats,
        "divergences_owned": {k: len(v) for k, v in allkinds.items() if k in plan["hard"] or k in plan["soft"]},
        "divergences_owned_by_other_properties": foreign,
        "protocol_scenarios": conc_scens,
        "samples": samples, "notes": notes,
    })
    run.assumptions += ["the Linux kernel's inotify behaves per the contract of System.v (validated, not proved)",
                        "Go channel/mutex semantics; filepath.Clean/Dir/Base as modelled in PathLex.v (validated by correspondence)"]


def hash_fam(fam):
    return sum(ord(c) for c in fam) % 97


def tail_file(p, n):
    try:
        return open(p).read().split("\n")[-n:]
    except OSError:
        return []


def head_history(p, n):
    out = []
    try:
        with open(p) as f:
            for l in f:
                if l.startswith("state "):
                    continue
                out.append(l.strip()[:220])
                if len(out) >= n:
                    break
    except OSError:
        pass
    return out


def make_replay(inobin, r, hist_id, kind, lines, pid):
    """minimise the script of the diverging history and build the replay record"""
    rep = {"kind": kind, "family": r["fam"], "seed": r["seed"], "history_id": hist_id, "lines": lines[:4],
           "replay_cmd": "bin/check %s --replay <this file>" % pid}
    try:
        scripts = read_scripts(r["scripts"])
        if hist_id in scripts:
            header, steps = scripts[hist_id]
        elif len(scripts) == 1:
            header, steps = list(scripts.values())[0]
        else:
            return rep
        mins, reproducible = minimise(inobin, header, steps, kind, "%s-%d" % (pid, os.getpid()))
        rep["script_header"] = header
        rep["script"] = mins
        rep["reproducible_from_script"] = reproducible
        if reproducible:
            _, l2 = kind_present(inobin, header, mins, kind, "%s-%d" % (pid, os.getpid()))
            rep["minimal_lines"] = [l for l in l2 if l.startswith(kind)][:3]
            rep["minimal_history"] = [l[:300] for l in open(os.path.join(WD, "h-min-%s-%d.txt" % (pid, os.getpid()))).read().split("\n") if not l.startswith("state ")][:80]
            rep["signature"] = ""
    except Exception as ex:  # the replay is best effort; the violation is reported regardless
        rep["minimise_error"] = repr(ex)
    return rep


def replay(run, path):
    d = json.load(open(path))
    rep = d.get("replay", {})
    with Lock():
        okb, logb, inobin = build_all()
    if not okb or "script" not in rep:
        print("cannot replay:", logb[-500:] if not okb else "no script in replay file")
        return
    p = os.path.join(WD, "replay.script")
    write_script(p, rep["script_header"], rep["script"])
    r = run_script_file(inobin, p, "replay")
    print(open(r["hist"]).read())
    print(r["driver_out"])
    lines, st, kh = parse_driver(r["driver_out"])
    if rep.get("kind") in kh:
        run.violation(key_for(rep["kind"]), "replayed: " + rep["kind"], rep)
    run.cov.update({"obligations": 1, "discharged": 1, "checker_cmd": "replay", "trusted_base": [], "evaluations": 1, "distinct_nontrivial": 0, "samples": [rep.get("script", [])]})


def _mk(pid):
    def f(run):
        run_ino_property(run)
    return f


for _p in PLAN:
    globals()["check_" + _p] = _mk(_p)
