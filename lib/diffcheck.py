# diffcheck.py — check for C20 (internal/ztest/diff.go: Diff / DiffMatch)
#
# pipeline: static Coq development, props/C20.v (theorems + Print Assumptions), then the tie:
#   harness/diffgen (templates) + a verbatim copy of internal/ztest/diff.go from the CURRENT tree
#   -> cases file (inputs and the real outputs) -> driver/diffdriver.ml (extracted model and the
#   extracted specification predicates evaluated on the implementation's own output).
#
# environment (testing only):
#   VERIF_DIFF_SRC      path of the diff.go to copy (default $REPO/internal/ztest/diff.go); used to try
#                       mutated copies without touching /repo
#   VERIF_DIFF_COQROOT  directory holding theories/ props/ extract/ (default /verif/coq)
import os, re, json, time, shutil
import common
from common import *

if os.environ.get("VERIF_DIFF_COQROOT"):
    common.COQ = os.environ["VERIF_DIFF_COQROOT"]

EXTRACT_DIRECTIVES = ["ExtrOcamlBasic: bool,option,unit,list,prod,sumbool,sumor -> OCaml natives",
                      "ExtrOcamlString: ascii -> char, string -> char list",
                      "numbers are not remapped (nat/uint stay Coq datatypes)"]

COQ_FILES = ["theories/Diff.v", "theories/Match.v", "theories/DiffProofs.v", "props/C20.v"]
PROOF_FILES = ["theories/DiffProofs.v", "props/C20.v"]
WD = os.path.join(BUILD, "diff")
SPEC_CLAUSES = {
    "empty-iff": "Diff returned \"\" although the trimmed texts differ, or a diff although they are equal",
    "format": "the output is not a unified diff with the expected file header / hunk headers / line prefixes",
    "patch": "the hunks applied to the first text do not produce the second",
    "headers": "a hunk header disagrees with its body (counts or start lines)",
    "context": "a hunk begins or ends with more than three unchanged lines",
    "changes": "a hunk contains no changed line",
    "diffmatch": "DiffMatch emptiness differs from the placeholder semantics",
    "diff-panic": "Diff panicked instead of returning",
    "flm-sound": "findLongestMatch returned a block outside the window or slices that differ",
    "flm-maximal": "findLongestMatch missed a longer common run inside the window",
    "flm-earliest": "findLongestMatch did not return the longest run that starts earliest in a, then earliest in b",
    "flm-panic": "findLongestMatch panicked",
    "blocks": "matchingBlocks: not a list of non-empty equal slices in increasing order followed by the sentinel",
    "opcodes-tile": "GetOpCodes: the codes do not tile both texts, or a tag's promise is broken",
    "lists-panic": "matchingBlocks/GetOpCodes/GetGroupedOpCodes/makeUnifiedDiff panicked on two line lists",
    "lists-empty-iff": "makeUnifiedDiff on line lists: empty output although the lists differ, or output although equal",
    "lists-format": "makeUnifiedDiff on line lists: output is not a unified diff of the expected shape",
    "lists-patch": "makeUnifiedDiff on line lists: the hunks applied to the first list do not give the second",
    "lists-headers": "makeUnifiedDiff on line lists: a hunk header disagrees with its body",
    "lists-context": "makeUnifiedDiff on line lists: more than three unchanged lines at an end of a hunk",
    "diffmatch-panic": "DiffMatch panicked on a well-formed expectation",
}


def diff_src():
    return os.environ.get("VERIF_DIFF_SRC") or os.path.join(REPO, "internal", "ztest", "diff.go")


def in_coqproject():
    try:
        txt = open(os.path.join(common.COQ, "_CoqProject")).read()
    except OSError:
        return False
    return all(f in txt for f in COQ_FILES)


def coq_direct(timeout=1500):
    """fallback while the files are not listed in _CoqProject: coqc in dependency order, rebuilding what is stale"""
    log, newest = "", 0.0
    for f in COQ_FILES:
        src = os.path.join(common.COQ, f)
        vo = src + "o"
        newest = max(newest, os.path.getmtime(src))
        if os.path.exists(vo) and os.path.getmtime(vo) >= newest:
            newest = max(newest, os.path.getmtime(vo))
            continue
        rc, out = sh("timeout %d coqc -Q theories Fsn -Q props FsnProps -w -notation-overridden %s" % (timeout, f),
                     cwd=common.COQ, timeout=timeout + 30)
        log += out
        if rc != 0:
            try:
                os.remove(vo)
            except OSError:
                pass
            return False, log
        newest = max(newest, os.path.getmtime(vo))
    return True, log


def build_go():
    """scratch package: templates of harness/diffgen + the working tree's diff.go"""
    gd = os.path.join(WD, "go")
    os.makedirs(os.path.join(gd, "ztest"), exist_ok=True)
    tdir = os.path.join(VERIF, "harness", "diffgen")
    shutil.copyfile(os.path.join(tdir, "main.go.tmpl"), os.path.join(gd, "main.go"))
    shutil.copyfile(os.path.join(tdir, "go.mod.tmpl"), os.path.join(gd, "go.mod"))
    shutil.copyfile(os.path.join(tdir, "shim.go.tmpl"), os.path.join(gd, "ztest", "shim.go"))
    shutil.copyfile(diff_src(), os.path.join(gd, "ztest", "diff.go"))
    binp = os.path.join(WD, "diffgen")
    rc, out = sh("timeout 300 go build -o %s ." % binp, cwd=gd, timeout=330)
    return rc == 0, out, binp


def build_all():
    """(ok_static, log_static, ok_props, log_props, okh, logh, genbin, okd, logd) — call under Lock()"""
    if in_coqproject():
        ok_static, log_static = coq_static()
        ok, log = (coq_make(["props/C20.vo"]) if ok_static else (False, ""))
    else:
        ok_static, log_static = True, "(Diff files not yet in _CoqProject: compiled directly with coqc)"
        ok, log = coq_direct()
    okh, logh, genbin = build_go()
    okd, logd = build_ocaml(os.path.join(WD, "ml"), "ExtractDiff.v", ["diffdriver.ml"], "diffdriver")
    return ok_static, log_static, ok, log, okh, logh, genbin, okd, logd


def parse_driver(out):
    mism, counts, summary = [], {}, ""
    for l in out.split("\n"):
        if l.startswith("MISMATCH"):
            mism.append(l)
        elif l.startswith("COUNT"):
            _, k, v = l.split()
            counts[k] = int(v)
        elif l.startswith("SUMMARY"):
            summary = l
    return mism, counts, summary


def fields(line):
    return dict(p.split("=", 1) for p in line.split()[3:] if "=" in p)


def unhex(s):
    return "" if s == "-" else bytes.fromhex(s).decode("utf-8", "replace")


def case_of(line):
    """the harness input line that reproduces a MISMATCH line"""
    f = fields(line)
    if "items" in f:
        return "M %s %s %s ?" % (f["have"], f["items"], f["want"])
    if "alo" in f:
        return "G %s %s %s %s %s %s" % (f["A"], f["B"], f["alo"], f["ahi"], f["blo"], f["bhi"])
    if "A" in f:
        return "B %s %s %s" % (f.get("gen", "replay"), f["A"], f["B"])
    if "start" in f:
        return "F %s %s" % (f["start"], f["stop"])
    if "text" in f:
        return "S %s" % f["text"]
    return "D %s %s %s ?" % (f.get("gen", "replay"), f["have"], f["want"])


def unlist(e):
    n, h = e.split(":", 1)
    return [] if n == "0" else [l + "\n" for l in unhex(h).split("\n")]


def readable(line):
    f = fields(line)
    if "A" in f:
        d = {"A": unlist(f["A"]), "B": unlist(f["B"])}
        for k in ("alo", "ahi", "blo", "bhi", "result", "blocks", "opcodes", "groups", "model"):
            if k in f:
                d[k] = f[k]
        if "out" in f:
            d["makeUnifiedDiff"] = unhex(f["out"])
        if "panic" in f:
            d["panic"] = unhex(f["panic"])
        return d
    if "start" in f or "text" in f:
        return {k: (unhex(v) if k in ("text", "out") else v) for k, v in f.items()}
    d = {"have": unhex(f.get("have", "-")), "want": unhex(f.get("want", "-"))}
    if "out" in f:
        d["implementation_output"] = unhex(f["out"])
    if "panic" in f:
        d["panic"] = unhex(f["panic"])
    if "model" in f:
        d["model_output"] = unhex(f["model"])
    if "items" in f:
        d["items"] = f["items"]
        d["implementation_result"] = f.get("result")
        if "expected_empty" in f:
            d["specification_says_empty"] = f["expected_empty"]
    return d


def check_C20(run):
    pid = run.pid
    notes = []
    thorough = run.tier == "thorough"
    with Lock():
        ok_static, log_static, ok, log, okh, logh, genbin, okd, logd = build_all()
        total, done, failed = proof_obligations(PROOF_FILES, (log_static if not ok_static else "") + log, ok)
        pa_closed, pa_axioms = 0, []
        if ok:
            okp, pa_closed, pa_axioms, _ = props_assumptions("props/C20.v")
        chk = None
        if ok and thorough:
            rc, out = sh("timeout 900 coqchk -silent -o -Q theories Fsn -Q props FsnProps FsnProps.C20", cwd=common.COQ, timeout=930)
            chk = {"rc": rc, "output": out[-1500:]}
            if rc != 0:
                notes.append("coqchk did not confirm the .vo closure (rc=%d)" % rc)
                if rc != 124:
                    run.violation("coqchk", "coqchk rejects the compiled development", {"theorem": "props/C20.vo closure", "log": out[-3000:]}, nofail=True)

    cases = os.path.join(WD, "cases-%s.txt" % run.tier)
    harness_ok = okh and okd
    mism, counts, summary, stats = [], {}, "", {}
    if harness_ok:
        rc, out = sh("%s -seed %d -tier %s > %s" % (genbin, run.seed, run.tier, cases), timeout=900)
        if rc == 0 and thorough:
            for k in (1, 2, 3):
                rc, out = sh("%s -seed %d -tier thorough -what long,match >> %s" % (genbin, run.seed + k, cases), timeout=900)
                if rc != 0:
                    break
        if rc != 0:
            harness_ok = False
            logh += out
    if harness_ok:
        rc, out = sh("./diffdriver %s" % cases, cwd=os.path.join(WD, "ml"), timeout=1800)
        mism, counts, summary = parse_driver(out)
        if rc != 0 or not summary:
            harness_ok = False
            logd += out[-3000:]
        with open(cases) as f:
            for l in f:
                if l.startswith("STAT "):
                    _, k, v = l.split()
                    stats[k] = stats.get(k, 0) + int(v)
    if not harness_ok:
        run.violation("harness-build", "correspondence harness or extracted model did not build or run",
                      {"correspondence": "diff", "harness_log": logh[-3000:], "driver_log": (logd or "")[-3000:]}, nofail=True)

    spec_m = [m for m in mism if m.split()[1] == "SPEC"]
    model_m = [m for m in mism if m.split()[1] == "MODEL"]
    # SPEC mismatches: a clause of the property fails on a concrete input of the implementation
    seen = set()
    for m in spec_m:
        clause = m.split()[2]
        if clause in seen:
            continue
        seen.add(clause)
        run.violation("spec-" + clause, SPEC_CLAUSES.get(clause, clause) + ": " + m[:400],
                      {"clause": clause, "case": case_of(m), "input": readable(m),
                       "how": "bin/check %s --replay <this file>" % pid})
    if not ok_static:
        if not spec_m:
            run.violation("static-proof", "hand-written Coq development does not build: " + ", ".join(failed),
                          {"theorem": "theories/*", "failed": failed, "log": log_static[-3000:]}, nofail=True)
        else:
            notes.append("static development does not build: " + ", ".join(failed))
    elif not ok:
        if not spec_m:
            run.violation("obligation-" + ",".join(failed)[:80], "proof no longer checks: " + ", ".join(failed),
                          {"failed": failed, "log": log[-3000:], "searched": counts}, nofail=True)
        else:
            notes.append("failed obligations: " + ", ".join(failed))
    if model_m and not spec_m:
        m = model_m[0]
        run.violation("model-" + m.split()[2],
                      "implementation output differs from the Coq model (no clause of the property fails on it): " + m[:400],
                      {"correspondence": "diff", "case": case_of(m), "input": readable(m), "lines": model_m[:10],
                       "searched": {k: v for k, v in counts.items() if k.startswith("cases.")}}, nofail=True)

    evals = sum(v for k, v in counts.items() if k.startswith("cases."))
    run.cov.update({
        "obligations": total, "discharged": done,
        "checker_cmd": "make -C coq props/C20.vo  (coqc 8.16.1; model theories/Diff.v Match.v, proofs theories/DiffProofs.v, statements props/C20.v)"
                       + ("; coqchk -silent -o FsnProps.C20" if thorough else ""),
        "trusted_base": TRUSTED_COMMON + [
            "extraction: " + "; ".join(EXTRACT_DIRECTIVES), "OCaml 4.13.1, driver/diffdriver.ml",
            "harness/diffgen/shim.go.tmpl: forwarding functions added to the copied package to reach the unexported functions",
            "harness/diffgen (Go) runs a verbatim copy of internal/ztest/diff.go (sha256 %s) outside the module" % file_sha(diff_src()),
            "Go regexp, strings.TrimSpace/SplitAfter, fmt %d are trusted; the model's TrimSpace is ASCII only",
            "DiffMatch: only emptiness, only the documented placeholders, ASCII text; %(..) free form, DiffNormalizeWhitespace and DiffJSON options are not modelled",
            "the proofs are about the Coq model; the model is tied to the code by exact output equality on the generated inputs below"],
        "print_assumptions": {"closed_under_global_context": pa_closed, "axioms": pa_axioms},
        "failed_obligations": failed,
        "coqchk": chk,
        "evaluations": evals,
        "distinct_nontrivial": counts.get("distinct_nontrivial.diff", 0) + counts.get("distinct_nontrivial.match", 0)
                               + counts.get("distinct_nontrivial.lists", 0),
        "rule": "distinct = distinct (have, want) input pairs (measured by the driver); non-trivial = Diff cases whose real output is a "
                "non-empty diff (parsed, patched, headers and context checked) plus DiffMatch cases whose expectation has a placeholder "
                "plus pairs of differing line lists given to matchingBlocks/GetOpCodes/GetGroupedOpCodes/makeUnifiedDiff; "
                "findLongestMatch windows, formatRangeUnified and splitLines cases are counted in evaluations only",
        "driver_counts": counts, "driver_summary": summary,
        "model_mismatches": len(model_m), "spec_mismatches": len(spec_m),
        "exhaustive": True,
        "exhaustive_over": "lines over {a,b,c} up to length %d on both sides; raw texts over {a,b,space,newline} all pairs up to length %d"
                      % ((5, 4) if thorough else (4, 3)),
        "distributions": stats,
        "samples": sample_cases(cases) if harness_ok else [],
        "diff_source": diff_src(),
        "notes": notes,
    })
    run.assumptions += ["theorems are stated on the Coq model of diff.go; its agreement with the code is tested, not proved",
                        "inputs of the tie are ASCII; Unicode white space in TrimSpace is not exercised"]


def file_sha(p):
    try:
        return hashlib.sha256(open(p, "rb").read()).hexdigest()[:16]
    except OSError:
        return "?"


def sample_cases(path, per_gen=2):
    """a few real cases, decoded; prefers multi-hunk outputs for the long generator"""
    out, seen = [], {}
    try:
        with open(path) as f:
            for l in f:
                p = l.split()
                if not p or p[0] not in ("D", "M"):
                    continue
                if p[0] == "D" and p[4].startswith("P"):
                    continue
                if p[0] == "D":
                    g, have, want, res = p[1], unhex(p[2]), unhex(p[3]), unhex(p[4])
                    if g == "long" and (res.count("\n@@ -") < 2 or len(have) > 300):
                        continue
                    if g == "ex" and (res == "" or len(have) < 5):
                        continue
                    if seen.get(g, 0) >= per_gen:
                        continue
                    seen[g] = seen.get(g, 0) + 1
                    out.append({"generator": g, "have": have, "want": want, "Diff": res})
                else:
                    g = "match" + p[4]
                    if seen.get(g, 0) >= per_gen or "," not in p[2]:
                        continue
                    seen[g] = seen.get(g, 0) + 1
                    out.append({"generator": "match", "have": unhex(p[1]), "items": p[2], "want": unhex(p[3]),
                                "DiffMatch_empty": p[4]})
    except OSError:
        pass
    return out


def replay(run, path):
    d = json.load(open(path))
    rp = d.get("replay", {})
    case = rp.get("case")
    print("replay of %s: key=%s" % (path, d.get("key")))
    print("recorded: " + str(d.get("what"))[:600])
    if not case:
        # a proof / build failure: nothing to re-run on a single input; re-run the whole check, which names it
        print("no stored input (theorem or correspondence failure: %s); re-running the check" % (rp.get("failed") or rp.get("theorem") or rp.get("correspondence")))
        return check_C20(run)
    with Lock():
        ok_static, log_static, ok, log, okh, logh, genbin, okd, logd = build_all()
    if not (okh and okd):
        print((logh + logd)[-3000:])
        run.violation("harness-build", "correspondence harness or extracted model did not build", {"correspondence": "diff"}, nofail=True)
        return
    os.makedirs(WD, exist_ok=True)
    inp = os.path.join(WD, "replay-in-%d.txt" % os.getpid())
    obs = os.path.join(WD, "replay-obs-%d.txt" % os.getpid())
    try:
        with open(inp, "w") as f:
            f.write(case + "\n")
        rc, out = sh("%s -replay %s > %s" % (genbin, inp, obs), timeout=300)
        if rc != 0:
            print(out)
        rc, out = sh("./diffdriver -v %s" % obs, cwd=os.path.join(WD, "ml"), timeout=300)
        print(out)
    finally:
        for p in (inp, obs):
            try:
                os.remove(p)
            except OSError:
                pass
    mism, counts, summary = parse_driver(out)
    for m in mism:
        kind, clause = m.split()[1], m.split()[2]
        if kind == "SPEC":
            run.violation("spec-" + clause, SPEC_CLAUSES.get(clause, clause) + ": " + m[:400],
                          {"clause": clause, "case": case_of(m), "input": readable(m)})
    if mism and not any(m.split()[1] == "SPEC" for m in mism):
        m = mism[0]
        run.violation("model-" + m.split()[2], "implementation output differs from the Coq model: " + m[:400],
                      {"correspondence": "diff", "case": case_of(m), "input": readable(m)}, nofail=True)
    run.cov.update({"replayed": case, "driver_summary": summary})
