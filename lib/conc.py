# conc.py — checks for the protocol properties C05 C06 C07 C13 C14 (and the buffering part of C03):
# generated control-flow skeletons + certificate (Cfg.v), protocol LTS theorems (Conc*.v), scenario harness `conc`.
import os, re, json, time
from common import *

WD = os.path.join(BUILD, "conc")

PLAN = {
    "C05": dict(what="pending,closerace,cycles,api", owns=["C05"], props="props/C05.v"),
    "C06": dict(what="pending,closerace,readerr,cycles", owns=["C06"], props="props/C06.v"),
    "C07": dict(what="api,closerace,pending", owns=["C07"], props="props/C07.v", race=True, extra_props=["props/Bridge2.v"]),
    "C13": dict(what="closerace,cycles,limit,readerr", owns=["C13"], props="props/C13.v"),
    "C14": dict(what="buffers,absorb,others", owns=["C14"], props="props/C14.v"),
}


def run_conc(binp, what, seed, tier, tag, race=False, owner=""):
    outp = os.path.join(WD, "conc-%s.out" % tag)
    fams = [w for w in what.split(",") if w != "limit"]
    out_all = ""
    rc_all = 0
    if fams:
        rc, out = sh("%s -seed %d -tier %s -what %s%s" % (binp, seed, tier, ",".join(fams), (" -owner " + owner) if owner else ""), timeout=(1500 if tier == "quick" else 5400), cwd=WD)
        out_all += out
        rc_all = rc
    if "limit" in what.split(","):
        # the per-user instance limit is lowered inside a private user namespace so that other processes are not starved
        rc, out = sh("unshare -U -r sh -c 'echo 6 > /proc/sys/user/max_inotify_instances && exec %s -what limit'" % binp, timeout=300, cwd=WD)
        if "SCEN instance-limit" not in out:
            out = "SCEN instance-limit-skipped (unshare not permitted: %s)\nSUMMARY scenarios=0 failures=0\n" % out.strip()[-120:].replace("\n", " ")
            rc = 0
        out_all += out
        rc_all = rc_all or rc
    with open(outp, "w") as f:
        f.write(out_all)
    return rc_all, out_all


def parse(out):
    fails, scens, races, panic = [], [], 0, None
    for l in out.split("\n"):
        if l.startswith("FAIL "):
            p = l.split(" ", 3)
            fails.append({"prop": p[1], "clause": p[2], "detail": p[3] if len(p) > 3 else "", "line": l})
        elif l.startswith("SCEN "):
            scens.append(l[5:])
        elif "WARNING: DATA RACE" in l:
            races += 1
        elif l.startswith("panic:") or l.startswith("fatal error:"):
            panic = l
    return fails, scens, races, panic


def run_conc_property(run):
    pid = run.pid
    plan = PLAN[pid]
    os.makedirs(WD, exist_ok=True)
    files = ["obl/OblCfg.v", plan["props"]] + plan.get("extra_props", [])
    with Lock():
        ok_static, log_static = coq_static()
        okx, logx = run_xlate("cfg,consts")
        ok, log = False, ""
        if ok_static and okx:
            ok, log = coq_make([f + "o" for f in files[1:]])
        total, done, failed = proof_obligations(files, log, ok)
        pa_closed, pa_axioms = 0, []
        if ok:
            for pf in files[1:]:
                _, c1, a1, _ = props_assumptions(pf)
                pa_closed += c1
                pa_axioms += a1
        okh, logh, binp = build_harness("conc")
        okr, logr, binr = (True, "", None)
        if plan.get("race"):
            hdir = os.path.join(VERIF, "harness")
            binr = os.path.join(BUILD, "bin", "conc-race")
            rc, logr = sh("go build -race -tags verif -o %s ./cmd/conc" % binr, cwd=hdir, timeout=900, extra_env={"CGO_ENABLED": "1"})
            okr = rc == 0
    if not okh:
        run.violation("harness-build", "the conc harness (hooks) no longer builds against the working tree", {"correspondence": "conc", "log": logh[-3000:]}, nofail=True)
        run.cov.update({"obligations": total, "discharged": done, "checker_cmd": "make -C coq " + plan["props"] + "o", "trusted_base": TRUSTED_COMMON,
                        "evaluations": 1, "distinct_nontrivial": 0, "samples": []})
        return
    rc, out = run_conc(binp, plan["what"], run.seed, run.tier, pid, owner=pid)
    fails, scens, races, panic = parse(out)
    race_scens = []
    if plan.get("race") and okr:
        rc2, out2 = run_conc(binr, "api,closerace", run.seed + 1, run.tier, pid + "-race", owner=pid)
        f2, race_scens, races, panic2 = parse(out2)
        fails += f2
        panic = panic or panic2
        if races:
            m = re.search(r"WARNING: DATA RACE(?:.|\n){0,1500}", out2)
            run.violation("data-race", "the race detector reports a data race during concurrent API use",
                          {"report": m.group(0) if m else "", "scenario_output_tail": out2[-1500:]})
    if panic or (rc != 0 and "SUMMARY" not in out):
        run.violation("crash", "the library crashed (or the harness died) during a scenario: %s" % (panic or "exit %d" % rc),
                      {"output_tail": out[-2500:]})
    owned = [f for f in fails if f["prop"] in plan["owns"]]
    seen = set()
    for f in owned:
        if f["clause"] in seen:
            continue
        seen.add(f["clause"])
        # the scenario line preceding the failure is the concrete input
        idx = out.find(f["line"])
        sc = [l for l in out[:idx].split("\n") if l.startswith("SCEN ")]
        run.violation(f["clause"], "%s: %s %s" % (pid, f["clause"], f["detail"]),
                      {"clause": f["clause"], "detail": f["detail"], "scenario": sc[-1] if sc else "", "seed": run.seed,
                       "how": "build/bin/conc -seed %d -tier %s -what %s (bin/check %s --replay <this file>)" % (run.seed, run.tier, plan["what"], pid)})
    if (not ok_static) or (not okx) or (not ok):
        if not owned:
            run.violation("proof-" + ",".join(failed)[:80], "Coq obligation no longer checks: " + ", ".join(failed),
                          {"theorem": failed, "log": (log_static if not ok_static else (logx if not okx else log))[-3000:],
                           "searched": "%d scenarios, no property-level failure" % len(scens)}, nofail=True)
    foreign = sorted(set(f["prop"] + ":" + f["clause"] for f in fails if f["prop"] not in plan["owns"]))
    nscen = len(scens) + len(race_scens)
    run.cov.update({
        "obligations": total, "discharged": done,
        "checker_cmd": "make -C coq %so (coqc 8.16.1: Cfg.v certificate on skeletons regenerated from /repo, Conc*.v theorems); scenarios: build/bin/conc" % plan["props"],
        "trusted_base": TRUSTED_COMMON + ["translator xlate/cfg.go (Go AST -> skeletons); its output is checked by the Coq checker cfg_ok, proved sound for every execution of the skeleton (discipline_sound)",
                                          "Conc.v is a hand-written LTS of the protocol; tied to the code by the generated facts and by the scenario harness",
                                          "Go runtime: scheduler fairness, sync.Mutex, channel semantics, race detector"],
        "print_assumptions": {"closed_under_global_context": pa_closed, "axioms": pa_axioms},
        "failed_obligations": failed,
        "evaluations": nscen, "distinct_nontrivial": nscen,
        "rule": "one evaluation = one scenario executed on the real Watcher (distinct PRNG draws of capacity, pending events/errors, consumer behaviour, call sets, concurrency); all are non-trivial: each runs control calls or concurrent API use against pending deliveries",
        "traces_validated_against_impl": nscen,
        "race_detector_scenarios": len(race_scens), "data_races": races,
        "failures_owned": [f["line"] for f in owned][:10],
        "failures_owned_by_other_properties": foreign,
        "samples": scens[:8] + race_scens[:2],
    })
    if pid == "C13":
        import kqcheck
        kqcheck.close_release_for_C13(run)
    run.assumptions += ["Go scheduler fairness and mutex/channel semantics", "the kernel releases all marks when the inotify descriptor is closed"]


def replay(run, path):
    d = json.load(open(path))
    print(json.dumps(d, indent=1))
    run_conc_property(run)


def _mk(pid):
    def f(run):
        run_conc_property(run)
    return f


for _p in PLAN:
    globals()["check_" + _p] = _mk(_p)
