# kqcheck.py — checks for C17 (kqueue: descriptors closed again, only user paths listed) and
# C18 (kqueue: each new entry reported once, then its changes).  Conventions of tables.py.
import os, re, json, time, random, shutil, glob
from common import *

KQ = os.path.join(VERIF, "kq")
KQB = os.environ.get("VERIF_KQ_BUILD", os.path.join(BUILD, "kq"))   # scratch build of the copied backend
KQ_SRC = os.environ.get("VERIF_KQ_SRC", REPO)          # tree the backend is copied from (mutation experiments point this elsewhere)
COPIED = ["backend_kqueue.go", "fsnotify.go", "shared.go", "system_bsd.go"]

EXTRACT_DIRECTIVES = ["ExtrOcamlBasic: bool,option,unit,list,prod,sumbool,sumor -> OCaml natives",
                      "ExtrOcamlString: ascii -> char, string -> char list",
                      "numbers are not remapped (N/positive/nat stay Coq datatypes)"]


# ------------------------------------------------------------------ check-time build of the copied backend

def copy_backend():
    """copy the kqueue backend from the CURRENT working tree into build/kq, rewrite imports, add accessor + harness.
    returns (ok, log)"""
    os.makedirs(KQB, exist_ok=True)
    for sub in ("fsnotify", "simunix", "internal", "harness"):
        d = os.path.join(KQB, sub)
        shutil.rmtree(d, ignore_errors=True)
        os.makedirs(d)
    # the files Go compiles for freebsd in the CURRENT tree (a function moved into a new file is followed)
    files = list(COPIED)
    rc, out = sh("go list -f '{{join .GoFiles \" \"}}' .", cwd=KQ_SRC, extra_env={"GOOS": "freebsd"}, timeout=120)
    if rc == 0:
        listed = [x for x in out.split() if x.endswith(".go") and not x.startswith("verif_hooks")]
        if listed:
            files = listed
    for f in files:
        src = os.path.join(KQ_SRC, f)
        if not os.path.exists(src):
            return False, "missing source file " + src
        txt = open(src).read()
        txt = re.sub(r"(?m)^//go:build .*\n", "", txt)
        txt = re.sub(r"(?m)^// \+build .*\n", "", txt)
        txt = txt.replace('"golang.org/x/sys/unix"', 'unix "kqscratch/simunix"')
        txt = txt.replace('"github.com/fsnotify/fsnotify/internal"', '"kqscratch/internal"')
        with open(os.path.join(KQB, "fsnotify", f), "w") as fh:
            fh.write(txt)
    shutil.copyfile(os.path.join(KQ, "harness", "accessor.go.txt"), os.path.join(KQB, "fsnotify", "verif_accessor.go"))
    for f in os.listdir(os.path.join(KQ, "simunix")):
        if f.endswith(".go"):
            shutil.copyfile(os.path.join(KQ, "simunix", f), os.path.join(KQB, "simunix", f))
    shutil.copyfile(os.path.join(KQ, "stub", "internal.go"), os.path.join(KQB, "internal", "internal.go"))
    for f in os.listdir(os.path.join(KQ, "harness")):
        if f.endswith(".go"):
            shutil.copyfile(os.path.join(KQ, "harness", f), os.path.join(KQB, "harness", f))
    with open(os.path.join(KQB, "go.mod"), "w") as fh:
        fh.write("module kqscratch\n\ngo 1.17\n")
    return True, ""


def build_kq():
    """(ok, log, binary)"""
    ok, log = copy_backend()
    binp = os.path.join(KQB, "kqh")
    if not ok:
        return False, log, binp
    rc, out = sh("go build -o %s ./harness" % binp, cwd=KQB, timeout=600)
    return rc == 0, out, binp


# ------------------------------------------------------------------ Coq: static theories + props (direct coqc until _CoqProject lists them)

KQ_V = ["theories/KqModel.v", "theories/KqInv.v", "theories/KqHist.v"]
PROPS = {"C17": "props/C17.v", "C18": "props/C18.v"}
COQC = "coqc -Q theories Fsn -Q props FsnProps -w -notation-overridden"


def in_coqproject(f):
    try:
        return any(l.strip() == f for l in open(os.path.join(COQ, "_CoqProject")))
    except OSError:
        return False


def coq_build(files, timeout=1500):
    """build the given .v files (dependency order). Uses the Makefile when _CoqProject lists them, else coqc directly
    (only when the .vo is older than the source or than an earlier file of the list). returns (ok, log)"""
    log, rebuilt = "", False
    for f in files:
        src, vo = os.path.join(COQ, f), os.path.join(COQ, f + "o")
        if not os.path.exists(src):
            return False, log + "\nmissing " + f
        if in_coqproject(f):
            ok, out = coq_make([f + "o"], timeout)
            log += out
            if not ok:
                return False, log
            continue
        stale = rebuilt or not os.path.exists(vo) or os.path.getmtime(vo) < os.path.getmtime(src)
        if not stale:
            continue
        rc, out = sh("timeout %d %s %s" % (timeout, COQC, f), cwd=COQ, timeout=timeout + 30)
        log += out
        if rc != 0:
            if os.path.exists(vo):
                os.remove(vo)
            return False, log + ('\nFile "./%s", line 0 (coqc rc=%d)' % (f, rc) if 'File "./' not in out else "")
        rebuilt = True
    return True, log


def build_driver():
    wd = os.path.join(KQB, "driver")
    os.makedirs(wd, exist_ok=True)
    exe = os.path.join(wd, "kqdriver")
    srcs = [os.path.join(COQ, "theories", "KqModel.v"), os.path.join(COQ, "extract", "ExtractKq.v"), os.path.join(VERIF, "driver", "kqdriver.ml")]
    if os.path.exists(exe) and all(os.path.getmtime(exe) >= os.path.getmtime(s) for s in srcs):
        return True, "", exe
    for f in os.listdir(wd):
        os.remove(os.path.join(wd, f))
    ok, log = build_ocaml(wd, "ExtractKq.v", ["kqdriver.ml"], "kqdriver")
    return ok, log, exe


# ------------------------------------------------------------------ history generator

NAMES = ["a", "b", "c", "x", "l", "p", "s"]
C17_CLAUSES = ["close-releases-all", "watchlist-user-only", "removed-not-listed", "remove-of-added-fails",
               "deleted-file-descriptor-open", "all-removed-empty", "unaccounted-descriptor", "remove-of-unadded-succeeds"]
C18_CLAUSES = ["reader-blocked", "names-user-spelling", "preexisting-silent", "create-once", "create-missed", "recreate", "remove-missed", "change-missed"]


def pclean(p):
    """filepath.Clean"""
    absolute = p.startswith("/")
    out = []
    for c in p.split("/"):
        if c in ("", "."):
            continue
        if c == "..":
            if out and out[-1] != "..":
                out.pop()
            elif not absolute:
                out.append("..")
            continue
        out.append(c)
    if absolute:
        return "/" + "/".join(out)
    return "/".join(out) or "."


def canon(p):
    """canonical relative form of a spelling"""
    c = pclean(p)
    if c == "/T":
        return "."
    return c[3:] if c.startswith("/T/") else c


class Gen:
    """tracks its own picture of the tree (canonical relative path -> kind) to keep the stream mostly valid"""

    def __init__(self, rng, profile, stats):
        self.r, self.profile, self.stats = rng, profile, stats
        self.tree = {}           # path -> 'f' | 'd' | 'p' | ('l', target)
        self.watched = []        # spellings added
        self.steps = []
        self.held = False
        self.closed = False

    def dirs(self):
        return [""] + [p for p, k in self.tree.items() if k == "d"]

    def kids(self, d):
        pre = d + "/" if d else ""
        return [p for p in self.tree if p.startswith(pre) and "/" not in p[len(pre):] and p != d]

    def paths(self, kinds=None):
        return [p for p, k in self.tree.items() if kinds is None or (k if isinstance(k, str) else "l") in kinds]

    def newname(self, d):
        pre = d + "/" if d else ""
        if d == "":
            return self.r.choice(["d0", "d1", "f0", "l0", "p0"] + NAMES[:3])
        return pre + self.r.choice(NAMES)

    def spell(self, p):
        """a spelling of the canonical path p"""
        r = self.r.random()
        kind = "clean"
        s = p
        if p and r < 0.45:
            v = self.r.randrange(6)
            if v == 0:
                s, kind = "./" + p, "dot-slash"
            elif v == 1:
                s, kind = p + "/", "trailing-slash"
            elif v == 2:
                s, kind = p.replace("/", "//", 1) if "/" in p else p + "//", "double-slash"
            elif v == 3:
                first = p.split("/")[0]
                s, kind = first + "/../" + p, "dotdot"
            elif v == 4:
                s, kind = "/T/" + p, "absolute"
            else:
                s, kind = "./" + p + "/.", "dot-slash-dot"
        self.stats["spellings"][kind] = self.stats["spellings"].get(kind, 0) + 1
        return s or "."

    def emit(self, s):
        self.steps.append(s)
        k = " ".join(s.split()[:2]) if s.split()[0] in ("fs", "api") else s
        self.stats["ops"][k] = self.stats["ops"].get(k, 0) + 1

    def rename_tree(self, a, b):
        for p in [q for q in self.tree if q == b or q.startswith(b + "/")]:
            del self.tree[p]
        for p in [q for q in self.tree if q == a or q.startswith(a + "/")]:
            self.tree[b + p[len(a):]] = self.tree.pop(p)

    def fs_step(self, valid=True):
        r = self.r
        dirs = self.dirs()
        # prefer watched directories so that something happens
        wdirs = [canon(w) for w in self.watched if self.tree.get(canon(w)) == "d"]
        d = r.choice(wdirs) if wdirs and r.random() < 0.7 else r.choice(dirs)
        files = [p for p in self.kids(d) if self.tree[p] == "f"]
        anyk = self.kids(d)
        op = r.choices(["create", "write", "trunc", "chmod", "unlink", "mkdir", "rmdir", "mkfifo", "symlink", "link", "rename", "renamedir"],
                       [22, 12, 4, 7, 12, 6, 4, 3, 7, 0, 10, 2])[0]
        if not valid:
            bogus = (d + "/" if d else "") + "nosuch/" + r.choice(NAMES)
            self.emit("fs %s %s" % (r.choice(["create", "write", "unlink", "mkdir", "rmdir", "chmod"]), bogus))
            return
        if op == "create":
            p = self.newname(d)
            if p.count("/") > 2:
                return
            self.emit("fs create " + p)
            if p not in self.tree:
                self.tree[p] = "f"
        elif op in ("write", "trunc", "chmod"):
            cands = files if op != "chmod" else [p for p in anyk if not isinstance(self.tree[p], tuple)]
            if cands:
                self.emit("fs %s %s" % (op, r.choice(cands)))
        elif op == "unlink":
            cands = [p for p in anyk if self.tree[p] != "d"]
            if cands:
                p = r.choice(cands)
                self.emit("fs unlink " + p)
                del self.tree[p]
        elif op == "mkdir":
            p = self.newname(d)
            if p not in self.tree and p.count("/") < 2:
                self.emit("fs mkdir " + p)
                self.tree[p] = "d"
        elif op == "rmdir":
            cands = [p for p in anyk if self.tree[p] == "d" and not self.kids(p)]
            if cands:
                p = r.choice(cands)
                self.emit("fs rmdir " + p)
                del self.tree[p]
        elif op == "mkfifo":
            p = self.newname(d)
            if p not in self.tree:
                self.emit("fs mkfifo " + p)
                self.tree[p] = "p"
        elif op == "symlink":
            p = self.newname(d)
            if p in self.tree:
                return
            v = r.random()
            sib = [q for q in anyk if not isinstance(self.tree[q], tuple)]
            if v < 0.55 and sib:
                t = r.choice(sib)
                tgt = t.split("/")[-1] if r.random() < 0.6 else "/T/" + t
            elif v < 0.8 and len(dirs) > 1:
                t = r.choice([x for x in dirs if x])
                # absolute, or relative to the link's own directory (then the watch is filed under the target's real path)
                tgt = "/T/" + t if r.random() < 0.5 else os.path.relpath(t, d or ".")
            else:
                tgt = "nowhere"
            self.emit("fs symlink %s %s" % (tgt, p))
            self.tree[p] = ("l", tgt)
        elif op == "link":
            if files:
                p = self.newname(d)
                if p not in self.tree:
                    self.emit("fs link %s %s" % (r.choice(files), p))
                    self.tree[p] = "f"
        elif op == "rename":
            cands = [p for p in anyk if self.tree[p] != "d"]
            if cands:
                a = r.choice(cands)
                d2 = d if r.random() < 0.7 else r.choice(dirs)
                b = self.newname(d2)              # often an existing name: overwrite by rename
                if b == a or self.tree.get(b) == "d" or b.count("/") > 2:
                    return
                ta = self.tree[a]
                if isinstance(ta, tuple) and ".." in ta[1] and os.path.dirname(a) != os.path.dirname(b):
                    return        # a relative link with ".." moved to another depth could point outside the sandbox root
                self.emit("fs rename %s %s" % (a, b))
                self.rename_tree(a, b)
        elif op == "renamedir":
            cands = [p for p in self.tree if self.tree[p] == "d"]
            if cands:
                a = r.choice(cands)
                b = a + "r"
                if b not in self.tree:
                    self.emit("fs rename %s %s" % (a, b))
                    self.rename_tree(a, b)

    def api_step(self):
        r = self.r
        v = r.random()
        if v < 0.5:
            if r.random() < 0.12:
                self.emit("api add " + self.spell("nosuch/" + r.choice(NAMES)))
                return
            pool = self.paths()
            if not pool:
                return
            pref = self.paths({"d"}) or pool
            p = r.choice(pref) if r.random() < 0.6 else r.choice(pool)
            s = self.spell(p)
            self.emit("api add " + s)
            self.watched.append(s)
        elif v < 0.85:
            if self.watched and r.random() < 0.85:
                w = r.choice(self.watched)
                s = self.spell(canon(w)) if r.random() < 0.6 else w
                self.emit("api remove " + s)
                self.watched = [x for x in self.watched if canon(x) != canon(s)]
            else:
                pool = self.paths() or ["nosuch"]
                self.emit("api remove " + self.spell(r.choice(pool)))
        else:
            self.emit("api list")

    def generate(self, n):
        r = self.r
        prof = self.profile
        # initial population before any watch
        for _ in range(r.randrange(2, 7)):
            self.fs_step()
        if not self.paths({"d"}):
            self.emit("fs mkdir d0")
            self.tree["d0"] = "d"
        w_api = {"mix": 0.3, "c17": 0.45, "c18": 0.15}[prof]
        w_hold = {"mix": 0.06, "c17": 0.03, "c18": 0.1}[prof]
        if prof == "c18":
            d = r.choice(self.paths({"d"}))
            s = self.spell(d)
            self.emit("api add " + s)
            self.watched.append(s)
        while len(self.steps) < n:
            x = r.random()
            if self.held and r.random() < 0.3:
                self.emit("release")
                self.held = False
                self.stats["bursts"] += 1
            elif x < w_hold and not self.held:
                self.emit("hold")
                self.held = True
            elif x < w_hold + w_api:
                self.api_step()
            else:
                self.fs_step(valid=r.random() < 0.9)
        if self.held:
            self.emit("release")
        if prof == "c17" or r.random() < 0.3:
            if r.random() < 0.5:
                for w in list(self.watched):
                    self.emit("api remove " + (w if r.random() < 0.5 else canon(w)))
                self.watched = []
            wd_ = [canon(w) for w in self.watched if self.tree.get(canon(w)) == "d"]
            if wd_ and r.random() < 0.35:
                self.emit("racecl create %s/0n" % r.choice(wd_))
            elif r.random() < 0.7:
                self.emit("api close")
                if r.random() < 0.3:
                    self.emit("api add d0")
                    self.emit("api list")
        return self.steps


def gen_histories(seed, count, length, stats, tag="r"):
    rng = random.Random(seed)
    out = []
    for i in range(count):
        prof = rng.choices(["mix", "c17", "c18"], [0.3, 0.35, 0.35])[0]
        g = Gen(rng, prof, stats)
        steps = g.generate(rng.randrange(max(6, length // 2), length + 1))
        out.append(("%s%04d" % (tag, i), prof, steps))
        stats["profiles"][prof] = stats["profiles"].get(prof, 0) + 1
    return out


def new_stats():
    return {"ops": {}, "spellings": {}, "profiles": {}, "bursts": 0}


# targeted corpus: minimal histories of the defects found so far (run first on every check) plus plain regressions
CORPUS = [
    ("k-close-leak", ["fs create f", "api add f", "api close"]),
    ("k-close-leak-dir", ["fs mkdir d", "fs create d/a", "api add d", "api close"]),
    ("k-unclean", ["fs mkdir d", "api add ./d", "api remove d"]),
    ("k-fifo-add", ["fs mkfifo p", "api add p", "api remove p"]),
    ("k-link-target-watched", ["fs create f", "fs symlink f l", "api add f", "api add l", "api remove l", "api remove f"]),
    ("k-unclean-link-close", ["fs create x", "fs symlink /T//x l", "api add l", "api close"]),
    ("k-link-remove", ["fs create f", "fs symlink f l", "api add l", "api remove l"]),
    ("k-link-target-deleted", ["fs create f", "fs symlink f l", "api add l", "fs unlink f"]),
    ("k-dir-rename", ["fs mkdir d", "fs create d/a", "api add d", "fs rename d e", "fs write e/a"]),
    ("k-fifo-entry", ["fs mkdir d", "api add d", "fs mkfifo d/p", "fs create d/x"]),
    ("k-dangling-entry", ["fs mkdir d", "api add d", "hold", "fs symlink nowhere d/a", "fs create d/b", "release", "fs create d/c"]),
    ("k-symlink-entry-rm", ["fs mkdir d", "fs create d/f", "fs symlink f d/l", "api add d", "fs unlink d/l"]),
    ("k-failed-add", ["fs mkdir d", "fs create d/a", "fs symlink nowhere d/z", "api add d"]),
    ("k-file-overwritten", ["fs create a", "api add a", "fs create b", "fs rename b a"]),
    ("k-entry-user-removed", ["fs mkdir d", "fs create d/a", "api add d", "api add d/a", "api remove d/a", "fs write d/a"]),
    ("k-remove-unadded", ["fs mkdir d", "api add d", "fs create d/x", "api remove d/x"]),
    ("k-burst-rename-recreate", ["fs mkdir d", "fs create d/l", "api add d", "hold", "fs rename d/l d/c", "fs create d/l", "release"]),
    ("k-fifo-replaces-symlinked-dir", ["fs mkdir d", "fs symlink /T/d l", "api add l", "fs mkfifo p", "fs rename p l", "fs create d/x"]),
    # scenario templates (clean on the checked-in tree): symlinked directory + its real parent, name re-use after a rename
    # with the reader running in between, Remove / re-Add, Close racing with a directory scan
    ("p-link-dir-then-parent", ["fs mkdir b", "fs mkdir b/dir", "fs mkdir a", "fs symlink ../b/dir a/link", "api add a/link", "api add b",
                                "fs create b/dir/two", "fs write b/dir/two", "fs create b/x", "fs create b/dir/three", "fs unlink b/dir/two"]),
    ("k-parent-then-link-dir", ["fs mkdir b", "fs mkdir b/dir", "fs mkdir a", "fs symlink ../b/dir a/link", "api add b", "api add a/link",
                                "fs create b/y", "fs create b/dir/one", "fs write b/dir/one"]),
    ("p-rename-recreate", ["fs mkdir d", "api add d", "fs create d/a", "fs rename d/a d/b", "fs create d/a", "fs write d/a",
                           "fs mkdir d/s", "fs rename d/s d/t", "fs mkdir d/s", "fs mkdir u", "fs rename d/b u/b", "fs create d/b"]),
    ("p-remove-readd", ["fs mkdir d", "fs create d/f", "fs create d/g", "api add d", "api remove d", "fs unlink d/f", "api add d", "fs create d/f",
                        "fs write d/g", "api remove d", "api list"]),
    ("p-close-racing-1", ["fs mkdir d", "fs create d/b", "fs create d/c", "fs create d/e", "fs create d/f", "fs create d/g", "fs create d/h",
                          "api add d", "racecl create d/a", "api list"]),
    ("p-close-racing-2", ["fs mkdir d", "fs create d/m", "fs create d/n", "fs create d/o", "fs create d/p", "fs create d/q", "fs mkdir d/r",
                          "fs create d/s", "api add ./d", "fs create d/t", "racecl create d/0"]),
    ("p-close-racing-3", ["fs mkdir d", "fs mkdir e", "fs create d/1", "fs create d/2", "fs create d/3", "fs create d/4", "fs create d/5",
                          "fs create e/1", "fs create e/2", "fs create e/3", "api add d", "api add e", "fs write d/1", "racecl create e/0"]),
    ("k-dir-write-rename-coalesced", ["fs mkdir p", "api add p", "fs mkdir p/d", "api add p/d", "hold", "fs create p/d/x", "fs rename p/d p/e", "release", "fs mkdir p/d"]),
    ("k-watched-file-recreated-in-burst", ["fs mkdir d0", "fs create d0/x", "api add d0/x", "hold", "fs unlink d0/x", "fs create d0/x", "release"]),
    ("k-c17-coalesced-remove", ["fs mkdir d0", "api add d0", "hold", "fs create d0/s", "fs rename d0 d0r", "release", "api remove d0"]),
    ("k-c17-symlink-entry", ["fs mkdir d0", "api add d0", "hold", "fs symlink . d0/x", "fs rename d0 d0r", "release", "api remove d0"]),
    ("k-c18-watched-dir-renamed", ["fs mkdir d0", "hold", "api add d0", "fs rename d0 d0r", "fs symlink nowhere d0r/p", "release", "fs symlink /T/d0r d0"]),
    ("k-burst-rmdir-recreate", ["fs mkdir d", "api add d", "fs mkdir d/s", "hold", "fs rmdir d/s", "fs create d/s", "release"]),
    ("p-plain", ["fs mkdir d", "fs create d/pre", "api add d", "fs create d/a", "fs write d/a", "fs chmod d/a", "fs rename d/a d/b",
                 "fs unlink d/b", "fs create d/b", "fs mkdir d/s", "fs rmdir d/s", "api list", "api remove d", "api list"]),
    ("p-burst", ["fs mkdir d", "api add d", "hold", "fs create d/a", "fs create d/b", "fs create d/c", "fs unlink d/b", "release",
                 "hold", "fs unlink d/a", "fs create d/a", "release", "fs rmdir d"]),
    ("p-dir-removed", ["fs mkdir d", "fs create d/a", "fs create d/b", "api add d", "fs unlink d/a", "fs unlink d/b", "fs rmdir d", "api list"]),
    ("p-symlinked-dir", ["fs mkdir d", "fs symlink d l", "api add l", "fs create d/a", "fs write d/a", "fs unlink d/a"]),
    ("p-two-dirs", ["fs mkdir d0", "fs mkdir d1", "fs create d0/a", "api add d0", "api add d1//", "fs rename d0/a d1/a", "fs create d0/a",
                    "fs rename d0/a d1/a", "api remove d1", "api remove d0"]),
]


def write_histories(path, hists):
    with open(path, "w") as f:
        for hid, prof, steps in hists:
            f.write("H %s profile=%s\n" % (hid, prof))
            for s in steps:
                f.write(s + "\n")


# ------------------------------------------------------------------ running harness + driver

def run_pipeline(kqh, drv, hists, name, timeout=900):
    """returns dict: obs_path, lines per history, driver output parsed"""
    wd = os.path.join(KQB, "run-%d" % os.getpid())      # per process: checks of C13, C17 and C18 may run at the same time
    os.makedirs(wd, exist_ok=True)
    hp, op = os.path.join(wd, name + ".hist"), os.path.join(wd, name + ".obs")
    write_histories(hp, hists)
    rc, out = sh("timeout %d %s -hist %s > %s" % (timeout, kqh, hp, op), timeout=timeout + 30)
    if rc != 0:
        return {"error": "harness rc=%d %s" % (rc, out[-1500:]), "obs": op}
    # the model follows the repaired tree (cfg_repo); VERIF_KQ_CFG=before-fix compares against the behaviour before
    # commits 833aa17 / c3f1f06 instead (only for experiments with old trees)
    cfgopt = "-cfg before-fix " if os.environ.get("VERIF_KQ_CFG") == "before-fix" else ""
    rc, dout = sh("timeout %d %s %s%s" % (timeout, drv, cfgopt, op), timeout=timeout + 30)
    res = {"obs": op, "model": [], "env": [], "spec": [], "mspec": set(), "summary": "", "diverging": set(), "error": None}
    if rc != 0 and "SUMMARY" not in dout:
        res["error"] = "driver rc=%d %s" % (rc, dout[-1500:])
        return res
    for l in dout.split("\n"):
        if l.startswith("MISMATCH MODEL"):
            m = re.match(r"MISMATCH MODEL (\S+) hist=(\S+) step=(\d+) field=(\S+) (.*)", l)
            if m:
                res["model"].append({"prop": m.group(1), "hist": m.group(2), "step": int(m.group(3)), "field": m.group(4), "text": m.group(5)})
        elif l.startswith("MISMATCH ENV"):
            m = re.match(r"MISMATCH ENV hist=(\S+) step=(\d+) field=(\S+) (.*)", l)
            if m:
                res["env"].append({"hist": m.group(1), "step": int(m.group(2)), "field": m.group(3), "text": m.group(4)})
        elif l.startswith("MISMATCH SPEC"):
            m = re.match(r"MISMATCH SPEC (\S+) hist=(\S+) step=(\d+) clause=(\S+) detail=\[(.*?)\] at: (.*)", l)
            if m:
                res["spec"].append({"prop": m.group(1), "hist": m.group(2), "step": int(m.group(3)), "clause": m.group(4),
                                    "detail": m.group(5), "at": m.group(6)})
        elif l.startswith("MSPEC "):
            m = re.match(r"MSPEC hist=(\S+) step=(\d+) clause=(\S+) detail=\[(.*?)\]$", l)
            if m:
                res["mspec"].add((m.group(1), int(m.group(2)), m.group(3), m.group(4)))
        elif l.startswith("SUMMARY"):
            res["summary"] = l
    # a violation the faithful model exhibits itself (known defects included) is "predicted"; one it does not is new,
    # whatever ingredients its history has.  The model does not know about blocking, so reader-blocked is exempt.
    for v in res["spec"]:
        v["predicted"] = v["clause"] == "reader-blocked" or (v["hist"], v["step"], v["clause"], v["detail"]) in res["mspec"]
    return res


def read_obs(path):
    """{hist id: [annotated lines]}"""
    out, cur = {}, None
    for l in open(path):
        l = l.rstrip("\n")
        if l.startswith("H "):
            cur = l.split()[1]
            out[cur] = [l]
        elif cur is not None:
            out[cur].append(l)
    return out


# ------------------------------------------------------------------ minimisation and classification

def ddmin(steps, fails, budget=40):
    """delta debugging over steps; fails(list of candidate step-lists) -> list of bool (batch evaluation)"""
    n = 2
    steps = list(steps)
    rounds = 0
    while len(steps) >= 2 and rounds < budget:
        rounds += 1
        size = max(1, len(steps) // n)
        chunks = [steps[i:i + size] for i in range(0, len(steps), size)]
        cands = []
        for i in range(len(chunks)):
            cands.append([s for j, c in enumerate(chunks) if j != i for s in c])   # complements
        res = fails(cands)
        hit = next((c for c, r in zip(cands, res) if r), None)
        if hit is not None:
            steps = hit
            n = max(n - 1, 2)
        else:
            if n >= len(steps):
                break
            n = min(len(steps), n * 2)
    return steps


def simplify_args(steps, fails):
    """replace unclean / absolute spellings by the clean relative one where the failure persists"""
    steps = list(steps)
    for i, s in enumerate(steps):
        w = s.split()
        if w[0] == "api" and len(w) == 3:
            c = pclean(w[2])
            if c.startswith("/T/"):
                c = c[3:]
            if c != w[2]:
                cand = steps[:i] + ["%s %s %s" % (w[0], w[1], c)] + steps[i + 1:]
                if fails([cand])[0]:
                    steps = cand
    return steps


def features(steps):
    """shape of a (minimal) history: which ingredients it has (a small replay of the tree, add by add)"""
    kinds, f = {}, set()      # path -> 'f' | 'd' | 'p' | 'l' ; link targets under path+'@'
    adds, adddirs = [], set()
    holding, renamed_away, rmdired, changed_in_hold, unlinked_watched = False, set(), set(), set(), set()

    def target(p):
        t = kinds.get(p + "@")
        return t

    def entry(p):
        par = os.path.dirname(p) or "."
        if par not in adddirs:
            return
        k = kinds.get(p)
        if k == "p":
            f.add("fifo-entry")
        elif k == "l":
            f.add("symlink-entry" if target(p) in kinds or target(p) == "." else "dangling-symlink-entry")

    addtrue = {}       # TRUE current path of everything the user added -> the name it was added under

    def move(a, b):
        for q in [q for q in list(addtrue) if q == a or q.startswith(a + "/")]:
            addtrue[b + q[len(a):]] = addtrue.pop(q)
        for q in [q for q in list(kinds) if q == b or q.startswith(b + "/") or q == b + "@"]:
            del kinds[q]
        for q in [q for q in list(kinds) if q == a or q.startswith(a + "/") or q == a + "@"]:
            kinds[b + q[len(a):]] = kinds.pop(q)

    for s in steps:
        w = s.split()
        if w[0] == "racecl":
            f.add("close")
            w = ["fs"] + w[1:]
        if w[0] == "fs" and len(w) >= 3:
            p = w[-1]
            par = os.path.dirname(p) or "."
            if holding and w[1] in ("create", "mkdir", "mkfifo", "symlink", "link", "unlink", "rmdir"):
                changed_in_hold.add(par)
            if holding and w[1] == "rename" and len(w) == 4:
                changed_in_hold.add(os.path.dirname(w[3]) or ".")
                if w[2] in adds and kinds.get(w[2]) == "d" and w[2] in changed_in_hold:
                    f.add("watched-dir-write-rename-coalesced")
                changed_in_hold.add(os.path.dirname(w[2]) or ".")
            if holding and p in unlinked_watched and w[1] in ("mkfifo", "symlink", "mkdir", "link"):
                f.add("watched-file-recreated-in-burst")
            if holding and p in renamed_away and w[1] in ("mkfifo", "symlink", "mkdir", "link"):
                f.add("rename-then-recreate-in-burst")
            if holding and p in rmdired and w[1] in ("mkfifo", "symlink", "mkdir", "link", "create"):
                f.add("rmdir-then-recreate-in-burst")
            if w[1] == "mkfifo":
                kinds.setdefault(p, "p")
                entry(p)
            elif w[1] == "symlink" and p not in kinds:
                tgt = w[2]
                base = os.path.dirname(p)
                kinds[p] = "l"
                kinds[p + "@"] = canon(tgt if tgt.startswith("/") else (base + "/" + tgt if base else tgt))
                entry(p)
            elif w[1] == "mkdir":
                kinds.setdefault(p, "d")
            elif w[1] in ("create", "link"):
                kinds.setdefault(p, "f")
                if holding and p in unlinked_watched:
                    f.add("watched-file-recreated-in-burst")
                if holding and p in renamed_away:
                    f.add("rename-then-recreate-in-burst")
            elif w[1] == "rename" and len(w) == 4:
                a, b = w[2], w[3]
                if a not in kinds:
                    continue
                if (a in adds or a in addtrue) and kinds.get(a) == "d":
                    f.add("watched-dir-renamed")
                if b in adds and kinds.get(b) in ("f", "l", "p"):
                    f.add("watched-file-overwritten")
                for q in (a, b):
                    if kinds.get(q) == "l" and (os.path.dirname(q) or ".") in adddirs:
                        f.add("symlink-entry")
                if holding and b in renamed_away:
                    f.add("rename-then-recreate-in-burst")
                if holding and b in rmdired:
                    f.add("rmdir-then-recreate-in-burst")
                if holding and b in unlinked_watched:
                    f.add("watched-file-recreated-in-burst")
                if holding:
                    renamed_away.add(a)
                    if a in adds:
                        unlinked_watched.add(a)
                move(a, b)
                entry(b)
            elif w[1] in ("unlink", "rmdir"):
                if kinds.get(p) == "l" and par in adddirs:
                    f.add("symlink-entry")
                if holding and w[1] == "unlink" and p in adds:
                    unlinked_watched.add(p)
                if holding and w[1] == "rmdir":
                    rmdired.add(p)           # a removed DIRECTORY is not re-scanned either (same block of readEvents)
                kinds.pop(p, None)
                kinds.pop(p + "@", None)
        elif w[0] == "api" and len(w) == 3:
            a = w[2]
            c = canon(a)
            if a != pclean(a):
                f.add("unclean-spelling")
            if w[1] == "remove" and c in adds and (os.path.dirname(c) or ".") in adddirs:
                f.add("entry-user-removed")
            if w[1] == "remove":
                adddirs.discard(c)
            if w[1] == "add":
                k = kinds.get(c)
                if k == "p":
                    f.add("fifo-added")
                elif k == "l":
                    f.add("symlink-added")
                    t = target(c)
                    if kinds.get(t) == "d":
                        adddirs.add(t)
                elif k is None and c != ".":
                    f.add("missing-path-added")
                adds.append(c)
                if k is not None:
                    addtrue[c] = c
                if k == "d" or c == ".":
                    adddirs.add(c)
                for q in list(kinds):
                    if not q.endswith("@"):
                        entry(q)
        elif w[0] == "hold":
            holding = True
        elif w[0] == "release":
            holding = False
            renamed_away.clear()
            rmdired.clear()
            changed_in_hold.clear()
            unlinked_watched.clear()
    if any(s == "api close" for s in steps):
        f.add("close")
    return sorted(f)


# the last two are the ingredients of defects repaired in /repo (c3f1f06): they only decide the key when nothing else does
CAUSES = ["symlink-added", "fifo-entry", "dangling-symlink-entry", "symlink-entry",
          "watched-dir-write-rename-coalesced", "watched-dir-renamed", "watched-file-recreated-in-burst", "watched-file-overwritten", "rename-then-recreate-in-burst", "rmdir-then-recreate-in-burst", "entry-user-removed",
          "fifo-added", "unclean-spelling"]


def spec_key(clause, detail, steps):
    """stable key of a violation.  The MINIMAL history decides: when it needs one of the known defect ingredients
    (CAUSES, most specific first) the key is that ingredient — one key per root cause, whatever clause it surfaces in;
    a minimal history with none of them is keyed by the failing clause ('<clause>:plain'), so that a violation with a new
    cause is never taken for a listed one."""
    fs_ = features(steps)
    if clause == "close-releases-all":
        if "vnode" in detail and "symlink-added" in fs_:
            return "symlink-added"      # the watch is filed under the raw (unclean) link target, which Close does not find
        return "close-leaks-descriptors" if "vnode" in detail else "close-leaks-kqueue-or-pipe"
    cause = next((c for c in CAUSES if c in fs_), None)
    if clause == "remove-of-unadded-succeeds":
        return "remove-of-unadded-succeeds"
    return cause if cause else clause + ":plain"


class Ctx:
    """built tools + counters shared by the minimiser"""

    def __init__(self, kqh, drv):
        self.kqh, self.drv, self.n = kqh, drv, 0
        self.runs = 0

    def eval_batch(self, cands, name="mini"):
        """run candidate step lists; returns per candidate the parsed (model, spec) mismatch lists"""
        hs = [("c%d" % i, "mini", c) for i, c in enumerate(cands)]
        self.runs += len(cands)
        r = run_pipeline(self.kqh, self.drv, hs, name)
        out = [{"model": [], "spec": [], "env": []} for _ in cands]
        if r.get("error"):
            return out
        for kind in ("model", "spec", "env"):
            for m in r[kind]:
                out[int(m["hist"][1:])][kind].append(m)
        return out

    def minimise(self, steps, pred):
        """pred(result dict) -> bool"""
        fails = lambda cands: [pred(x) for x in self.eval_batch(cands)]
        steps = ddmin(steps, fails)
        steps = simplify_args(steps, fails)
        steps = ddmin(steps, fails, budget=10)
        return steps


def annotate(ctx, steps, name="final"):
    """run one history; returns (annotated lines, result dict)"""
    r = run_pipeline(ctx.kqh, ctx.drv, [("m0", "replay", steps)], name)
    lines = read_obs(r["obs"]).get("m0", []) if not r.get("error") else []
    return lines, r


def triage_spec(ctx, hists, res, prop, max_per_group=3, max_total=60):
    """minimise spec violations of one property; returns {key: {clause, detail, steps, lines, count}}"""
    by_hist = {h[0]: h[2] for h in hists}
    groups, order = {}, []
    for m in res["spec"]:
        if m["prop"] != prop or not m.get("predicted", True):
            continue
        # rough pre-classification: clause + the features of the history prefix up to the violating step
        pre = features(by_hist[m["hist"]][:m["step"]])
        g = (m["clause"], tuple(c for c in CAUSES if c in pre)[:2])
        if g not in groups:
            groups[g] = []
            order.append(g)
        if not any(x["hist"] == m["hist"] for x in groups[g]):
            groups[g].append(m)
    found, total = {}, 0
    # 0. violations the model does not predict (the implementation has left the model AND breaks a clause): always new
    unp, seen_u = [], set()
    for m in sorted((m for m in res["spec"] if m["prop"] == prop and not m.get("predicted", True)), key=lambda m: m["step"]):
        if m["clause"] not in seen_u or len([u for u in unp if u["clause"] == m["clause"]]) < 2:
            if not any(u["hist"] == m["hist"] and u["clause"] == m["clause"] for u in unp):
                seen_u.add(m["clause"])
                unp.append(m)
    for m in unp[:6]:
        clause = m["clause"]
        steps = by_hist[m["hist"]][:m["step"]]
        pred = lambda x, c=clause: any(s["clause"] == c and not s.get("predicted", True) for s in x["spec"])
        mini = ctx.minimise(steps, pred)
        hit = None
        # a racing Close makes the outcome depend on the select in sendEvent: re-run until the failure shows again,
        # falling back to the history as it was found
        for cand in [mini] * 4 + [steps] * 4:
            lines, r = annotate(ctx, cand)
            hit = next((s for s in r.get("spec", []) if s["clause"] == clause and not s.get("predicted", True)), None)
            if hit is not None:
                mini = cand
                break
        if hit is None:
            continue
        key = clause + ":not-predicted-by-model"
        if clause == "close-releases-all":
            key = "close-leaks-descriptors" if "vnode" in hit["detail"] else "close-leaks-kqueue-or-pipe"
        if key not in found or len(mini) < len(found[key]["steps"]):
            found[key] = {"clause": clause, "detail": hit["detail"], "steps": mini, "lines": lines, "from": m["hist"],
                          "count": found.get(key, {}).get("count", 0), "unpredicted": True,
                          "model_vs_impl": [x["field"] + " " + x["text"] for x in r.get("model", [])][:4]}
        found[key]["count"] += 1
    # 1. the stored witnesses of the listed findings (not counted against the budget), then
    # 2. smallest prefixes first: they minimise fastest and are the most specific
    todo, seen_c = [], set()
    for m in res["spec"]:
        if not m.get("predicted", True):
            continue
        if m["prop"] == prop and m["hist"].startswith(("k-", "kq-")) and (m["hist"], m["clause"]) not in seen_c:
            seen_c.add((m["hist"], m["clause"]))
            todo.append((m, True))
    for g in sorted(order, key=lambda g: (len(g[1]), g)):
        for m in sorted(groups[g], key=lambda m: m["step"])[:max_per_group]:
            if not m["hist"].startswith(("k-", "kq-")):
                todo.append((m, False))
    if True:
        for m, free in todo:
            if not free:
                if total >= max_total:
                    break
                total += 1
            clause = m["clause"]
            steps = by_hist[m["hist"]][:m["step"]]
            pred = lambda x, c=clause: any(s["clause"] == c for s in x["spec"])
            mini = ctx.minimise(steps, pred)
            lines, r = annotate(ctx, mini)
            hit = next((s for s in r.get("spec", []) if s["clause"] == clause), None)
            if hit is None:
                continue
            key = spec_key(clause, hit["detail"], mini)
            if key not in found or len(mini) < len(found[key]["steps"]):
                found[key] = {"clause": clause, "detail": hit["detail"], "steps": mini, "lines": lines,
                              "from": m["hist"], "count": found.get(key, {}).get("count", 0)}
            found[key]["count"] += 1
    return found


# ------------------------------------------------------------------ the checks

WHAT = {
    "close-leaks-descriptors": "Close marks the watcher closed and then calls Remove, which returns early once closed: every watch descriptor stays open after Close",
    "unclean-spelling": "addUserWatch stores the uncleaned Add argument while remove deletes the cleaned one: after Remove the path is still in WatchList/byUser (and an entry the user added under an unclean spelling is treated as internal)",
    "fifo-added": "Add of a FIFO/socket returns nil and records a user watch although nothing is watched: it is listed by WatchList and Remove fails with ErrNonExistentWatch",
    "symlink-added": "a watch added through a symlink is filed under the target's name: Remove(link) fails, deletion/rename of the target leaves the descriptor open and the link in WatchList (addLink leaves path->0/seen entries when the target is already watched)",
    "watched-dir-renamed": "when a watched directory is renamed only its own watch is removed: the per-entry watches (descriptors, table entries) stay until each entry is deleted",
    "fifo-entry": "a FIFO inside a watched directory is never marked seen (internalWatch returns \"\"; seen[\"\"] is set instead and never cleared): Create is repeated on every directory change, its removal is not reported",
    "dangling-symlink-entry": "an unresolvable symlink inside a watched directory makes open fail: Add of the directory fails half-way leaving watches behind; later scans report its Create again on every change and stop before the entries sorted after it",
    "symlink-entry": "the per-entry watch of a symlink follows the link (open without O_NOFOLLOW): removing/renaming/overwriting the link itself is not reported (recorded as broken in testdata/watch-dir/remove-symlink) and target events are reported under the link's name",
    "watched-file-overwritten": "when a watched file is replaced by rename the watcher re-watches the new file internally: WatchList no longer shows it but the descriptor and table entries remain",
    "watched-file-recreated-in-burst": "a user-watched path deleted or renamed away and its name created again before the reader runs: after the Remove the watcher finds the name again, reports Create and re-watches the new file internally: WatchList no longer shows it but the descriptor and table entries remain",
    "remove-of-unadded-succeeds": "Remove succeeds on a per-entry watch the user never added (documented: ErrNonExistentWatch) and silently stops the reporting for that entry",
    "entry-user-removed": "Remove of a user-added entry of a watched directory removes the one shared watch: the directory stops reporting that entry's changes and reports Create for it again",
    "reader-blocked:plain": "the reader goroutine blocks forever",
    "rename-then-recreate-in-burst": "a name renamed away and created again before the reader runs gets no Create until the directory changes again (only NOTE_DELETE, not NOTE_RENAME, triggers the re-scan of the name)",
    "watched-dir-write-rename-coalesced": "a watched directory that changes and is then renamed before the reader runs delivers one record with NOTE_WRITE|NOTE_RENAME: readEvents takes the directory-scan branch (isDir && Write && !Remove) instead of sending the event, so the Rename of the directory is never reported (and the scan runs on a path that is gone)",
    "rmdir-then-recreate-in-burst": "a sub-directory of a watched directory removed and its name created again before the reader runs gets Remove but no Create until the directory changes again (the isDir branch of the Remove block in readEvents never re-checks the name)",
}


def prepare(run, pid):
    """static proofs, props, copied backend, harness, driver, testdata gate. Returns dict."""
    P = {}
    with Lock():
        P["coq_ok"], P["coq_log"] = coq_build(KQ_V + [PROPS[pid]])
        files = KQ_V + [PROPS[pid]]
        P["obl"] = proof_obligations(files, P["coq_log"], P["coq_ok"])
        P["pa"] = (0, [])
        if P["coq_ok"]:
            rc, out = sh("timeout 900 %s %s" % (COQC, PROPS[pid]), cwd=COQ, timeout=930)
            P["pa"] = assumptions_from_log(out)
            P["pa_text"] = out[-1500:]
        P["kq_ok"], P["kq_log"], P["kqh"] = build_kq()
        P["drv_ok"], P["drv_log"], P["drv"] = build_driver()
    P["gate"] = []
    if P["kq_ok"]:
        rc, out = sh("timeout 120 %s -scripts %s" % (P["kqh"], os.path.join(REPO, "testdata")), timeout=150)
        for l in out.split("\n"):
            m = re.match(r"SCRIPT (\S+) (\S+) ?(.*)", l)
            if m:
                P["gate"].append({"script": m.group(1), "verdict": m.group(2), "detail": m.group(3)})
    return P


def canon_hist(steps):
    return "\n".join(steps)


def nontrivial(lines, pid):
    """C17: some step changes the ledger or a table size; C18: at least one delivered event"""
    prev = None
    for l in lines[1:]:
        if pid == "C18":
            if re.search(r" ev=\[[^\]]", l):
                return True
        else:
            m = re.search(r" led=\[(.*?)\] sizes=(\S+)", l)
            if m:
                cur = (m.group(1), m.group(2))
                if prev is not None and cur != prev:
                    return True
                prev = cur
    return False


def hist_stats(obs_by_hist):
    ev, mx, steps = 0, 0, 0
    evh, szh = {}, {}
    for hid, lines in obs_by_hist.items():
        n = 0
        for l in lines[1:]:
            steps += 1
            m = re.search(r" ev=\[(.*?)\]", l)
            if m and m.group(1):
                n += len(m.group(1).split(","))
            m = re.search(r" sizes=(\d+),", l)
            if m:
                mx = max(mx, int(m.group(1)))
                b = min(int(m.group(1)), 10)
                szh[b] = szh.get(b, 0) + 1
        ev += n
        b = "0" if n == 0 else ("1-4" if n < 5 else ("5-14" if n < 15 else "15+"))
        evh[b] = evh.get(b, 0) + 1
    return {"events_delivered": ev, "max_wd_table": mx, "events_per_history": evh, "wd_table_size_per_step": szh, "steps": steps}


def run_check(run, pid):
    t0 = time.time()
    P = prepare(run, pid)
    total, done, failed = P["obl"]
    notes = []
    gate_pass = [g["script"] for g in P["gate"] if g["verdict"] == "PASS"]
    gate_skip = [g for g in P["gate"] if g["verdict"] == "SKIP"]
    gate_bad = [g for g in P["gate"] if g["verdict"] not in ("PASS", "SKIP")]
    cov = {"obligations": total, "discharged": done, "failed_obligations": failed,
           "checker_cmd": "coqc 8.16.1: theories/KqModel.v theories/KqInv.v %s (statements in %s restate lemmas of KqInv.v by `exact`)" % (PROPS[pid], PROPS[pid]),
           "trusted_base": TRUSTED_COMMON + [
               "simulated vnode kernel: NOTE_* rules of DESIGN 3.6 implemented twice (Go: kq/harness fsop + kq/simunix; Gallina: KqModel.fs_apply/k_raise), "
               "validated only against the repository's recorded kqueue/freebsd expectations (testdata gate below) and against each other on every step",
               "no BSD kernel is run; schedules are those the simulated kevent admits (API calls and filesystem operations while the reader is idle or withheld)",
               "extraction: " + "; ".join(EXTRACT_DIRECTIVES), "OCaml 4.13.1, driver/kqdriver.ml; Go harness kq/harness, descriptor ledger kq/simunix",
               "specification predicates (KqModel.v section 7) use the filesystem model as environment, never the watcher model",
               "Go runtime (channels, mutexes), os.ReadDir/Lstat/Readlink, filepath.Clean/Dir/Join are modelled (clean/dir/pjoin) and exercised by the correspondence only"],
           "print_assumptions": {"closed_under_global_context": P["pa"][0], "axioms": P["pa"][1]},
           "testdata_gate": {"passed": len(gate_pass), "skipped": len(gate_skip), "failed": len(gate_bad), "passing_scripts": gate_pass,
                             "skipped_scripts": [g["script"] + ": " + g["detail"] for g in gate_skip],
                             "failing_scripts": [g["script"] + ": " + g["detail"] for g in gate_bad]},
           "notes": notes}
    run.cov.update(cov)
    run.assumptions += ["kevent(2)/FreeBSD vop_*_post semantics as in DESIGN 3.6 (model); partial: no real BSD kernel",
                        "quantifier: the theorems of KqInv.v range over ALL step sequences of the model with arbitrary filesystem answers; "
                        "the tie to the code is differential (histories run on the real backend_kqueue.go compiled against simunix)"]
    if not P["coq_ok"]:
        run.violation("static-proof", "Coq development for %s does not build: %s" % (pid, ", ".join(failed)),
                      {"theorem": failed, "log": P["coq_log"][-3000:]}, nofail=True)
    if not P["kq_ok"]:
        run.violation("copied-backend-build", "the kqueue backend copied from the working tree does not compile against simunix; the tie cannot be established: "
                      + P["kq_log"].strip()[:400], {"correspondence": "kq", "build_log": P["kq_log"][-3000:], "source": KQ_SRC}, nofail=True)
        return
    if not P["drv_ok"]:
        run.violation("driver-build", "extraction or OCaml driver does not build", {"log": P["drv_log"][-3000:]}, nofail=True)
        return
    if gate_bad or not gate_pass:
        run.violation("testdata-gate", "the simulated kernel + copied backend no longer reproduce the repository's recorded kqueue expectations: "
                      + "; ".join(g["script"] + " " + g["detail"] for g in gate_bad)[:600],
                      {"gate": gate_bad, "how": "build/kq/kqh -scripts %s/testdata" % REPO}, nofail=True)

    # ---- histories: corpus first, then seeded random
    quick = run.tier != "thorough"
    stats = new_stats()
    nrand, length = (220, 36) if quick else (2500, 48)
    hists = [(a, "corpus", b) for a, b in CORPUS]
    for extra in sorted(glob.glob(os.path.join(VERIF, "corpus", "kq-*.hist"))):
        st_ = [l.split("=>")[0].strip() for l in open(extra) if l.strip() and not l.startswith(("H ", "#", "E "))]
        hists.append((os.path.basename(extra)[:-5], "corpus", st_))
    hists += gen_histories(run.seed, nrand, length, stats)
    if not quick:
        hists += gen_histories(run.seed + 7919, 1500, 24, stats, tag="s")
    res = run_pipeline(P["kqh"], P["drv"], hists, pid.lower(), timeout=1200)
    if res.get("error"):
        run.violation("harness-run", "harness or driver failed: " + res["error"][:300], {"log": res["error"]}, nofail=True)
        return
    obs = read_obs(res["obs"])
    ctx = Ctx(P["kqh"], P["drv"])
    by_hist = {h[0]: h[2] for h in hists}

    # ---- (1) specification on the implementation's observations
    found = triage_spec(ctx, hists, res, pid, max_per_group=1 if quick else 3, max_total=35 if quick else 400)
    for key, v in sorted(found.items()):
        if v.get("unpredicted"):
            run.violation(key, "clause %s of %s fails on the implementation (%s) and the model of the checked-in code does not show it: new behaviour"
                          % (v["clause"], pid, v["detail"]),
                          {"kind": "spec", "clause": v["clause"], "detail": v["detail"], "minimal_history": v["steps"], "observations": v["lines"],
                           "model_vs_impl": v.get("model_vs_impl"), "found_in": v["from"], "how": "bin/check %s --replay <this file>" % pid})
            continue
        run.violation(key, WHAT.get(key, "clause %s of %s fails on the implementation: %s" % (v["clause"], pid, v["detail"])),
                      {"kind": "spec", "clause": v["clause"], "detail": v["detail"], "minimal_history": v["steps"], "observations": v["lines"],
                       "found_in": v["from"], "how": "bin/check %s --replay <this file>" % pid})

    # ---- (2) model vs implementation on this property's projection
    mm = [m for m in res["model"] if m["prop"] == pid]
    div_hists = []
    for m in mm:
        if m["hist"] not in div_hists:
            div_hists.append(m["hist"])
    reported = set()
    for hid in div_hists[: (4 if quick else 12)]:
        first = next(m for m in mm if m["hist"] == hid)
        steps = by_hist[hid][:first["step"]]
        pred = lambda x: any(s["prop"] == pid for s in x["model"])
        mini = ctx.minimise(steps, pred)
        lines, r = annotate(ctx, mini)
        fm = next((x for x in r.get("model", []) if x["prop"] == pid), first)
        # spec verdict on the implementation's own observations for the minimal history
        sv = [s for s in r.get("spec", []) if s["prop"] == pid]
        new = [s for s in sv if spec_key(s["clause"], s["detail"], mini) not in run.known]
        if new:
            s0 = new[0]
            key = spec_key(s0["clause"], s0["detail"], mini)
            if key not in reported and key not in found:
                reported.add(key)
                run.violation(key, "implementation diverges from the model AND violates clause %s (%s)" % (s0["clause"], s0["detail"]),
                              {"kind": "divergence+spec", "clause": s0["clause"], "detail": s0["detail"], "minimal_history": mini, "observations": lines,
                               "model_vs_impl": fm["text"], "field": fm["field"]})
        else:
            key = "model-divergence-" + fm["field"]
            if key not in reported:
                reported.add(key)
                run.violation(key, "the implementation no longer behaves like KqModel.v on the %s projection (%s): the theorems do not speak about this code"
                              % (pid, fm["field"]), {"kind": "divergence", "minimal_history": mini, "observations": lines, "model_vs_impl": fm["text"],
                                                     "spec_verdict": "no unlisted clause fails on this history"}, nofail=True)
    env_h = sorted(set(m["hist"] for m in res["env"]))
    if env_h and not mm:
        notes.append("environment-model discrepancies (filesystem tree / registrations) in %d histories: %s" % (len(env_h), res["env"][0]["text"][:200]))

    # ---- evidence
    nontriv = set()
    for hid, lines in obs.items():
        if nontrivial(lines, pid):
            nontriv.add(canon_hist(by_hist.get(hid, [])))
    hs = hist_stats(obs)
    samples = []
    for hid in list(obs)[:2] + [h for h in obs if h.startswith("r")][:2]:
        samples.append([l[:400] for l in obs[hid][:40]])
    summ = dict(kv.split("=") for kv in res["summary"].split()[1:]) if res["summary"] else {}
    run.cov.update({
        "evaluations": int(summ.get("steps", 0)),
        "histories": len(hists), "distinct_nontrivial": len(nontriv),
        "rule": "one evaluation = one history step executed on the real copied backend and on the extracted model with the projected observables compared; "
                "distinct_nontrivial = distinct step sequences in which " + ("the ledger or a table size changes" if pid == "C17" else "at least one event is delivered"),
        "full_model_agreement_steps": int(summ.get("agree_full", 0)),
        "model_mismatches": {"C17": int(summ.get("model_mismatch_c17", 0)), "C18": int(summ.get("model_mismatch_c18", 0)),
                             "other": int(summ.get("model_mismatch_other", 0)), "environment": int(summ.get("env_mismatch", 0))},
        "spec_violation_lines": {"C17": int(summ.get("spec_c17", 0)), "C18": int(summ.get("spec_c18", 0))},
        "minimisation_runs": ctx.runs,
        "distributions": {"operations": stats["ops"], "spellings": stats["spellings"], "profiles": stats["profiles"], "bursts": stats["bursts"], **hs},
        "samples": samples, "driver_summary": res["summary"],
        "source_tree": KQ_SRC, "wall_pipeline_s": round(time.time() - t0, 1),
    })


def close_release_for_C13(run):
    """C13 on the kqueue backend: after Close every descriptor the Watcher opened is closed (kqueue, pipe, one per watched
    vnode) — the copied backend_kqueue.go on the simulated kernel, histories ending in Close (also Close racing a
    directory scan).  Only the close-releases-all clause is looked at; everything else is C17's."""
    with Lock():
        ok, log, kqh = build_kq()
        okd, logd, drv = build_driver()
    if not (ok and okd):
        run.cov["kqueue_close"] = {"note": "copied kqueue backend or driver does not build (reported by C17)", "log": (log + logd)[-600:]}
        return
    stats = new_stats()
    hists = [(a, "corpus", b) for a, b in CORPUS if any(x == "api close" or x.startswith("racecl") for x in b)]
    hists += gen_histories(run.seed + 31, 90 if run.tier == "quick" else 900, 24, stats, tag="c")
    res = run_pipeline(kqh, drv, hists, "c13", timeout=900)
    if res.get("error"):
        run.cov["kqueue_close"] = {"note": "harness failed: " + res["error"][:300]}
        return
    closes = [m for m in res["spec"] if m["prop"] == "C17" and m["clause"] == "close-releases-all"]
    ctx = Ctx(kqh, drv)
    res2 = dict(res)
    res2["spec"] = closes
    found = triage_spec(ctx, hists, res2, "C17", max_per_group=1, max_total=6) if closes else {}
    for key, v in sorted(found.items()):
        run.violation("kqueue-" + key, "kqueue backend: descriptors survive Close (%s)" % v["detail"],
                      {"kind": "spec", "clause": v["clause"], "detail": v["detail"], "minimal_history": v["steps"], "observations": v["lines"],
                       "how": "copied backend_kqueue.go on kq/simunix; build/kq/kqh + driver/kqdriver"})
    summ = dict(kv.split("=") for kv in res["summary"].split()[1:]) if res.get("summary") else {}
    run.cov["kqueue_close"] = {"histories_ending_in_close": len(hists), "steps": int(summ.get("steps", 0)),
                               "close_releases_all_violations": len(closes)}


def check_C17(run):
    run_check(run, "C17")


def check_C18(run):
    run_check(run, "C18")


def replay(run, path):
    """re-execute a replay file against the current tree: observation, model prediction, predicate verdict"""
    d = json.load(open(path))
    rp = d.get("replay", {})
    steps = rp.get("minimal_history")
    print("replay of %s key=%s: %s" % (d.get("property"), d.get("key"), d.get("what")))
    if not steps:
        print(json.dumps(rp, indent=1)[:3000])
        getattr(__import__("kqcheck"), "check_" + run.pid)(run)
        return
    with Lock():
        ok, log, kqh = build_kq()
        okd, logd, drv = build_driver()
    if not (ok and okd):
        print("build failed:\n" + (log + logd)[-2000:])
        run.violation(d.get("key", "replay-build"), "replay could not be built", {"log": (log + logd)[-2000:]}, nofail=True)
        return
    ctx = Ctx(kqh, drv)
    lines, r = annotate(ctx, steps, "replay")
    print("--- observations of the implementation (current tree)")
    for l in lines:
        print("  " + l)
    print("--- model prediction vs implementation")
    for m in r.get("model", []):
        print("  MISMATCH MODEL %s step=%d field=%s %s" % (m["prop"], m["step"], m["field"], m["text"]))
    if not r.get("model"):
        print("  model and implementation agree on every step")
    print("--- specification verdict on the implementation's observations")
    hit = False
    for s in r.get("spec", []):
        if s["prop"] == run.pid:
            print("  VIOLATED clause=%s detail=[%s] at step %d: %s" % (s["clause"], s["detail"], s["step"], s["at"]))
            if s["clause"] == rp.get("clause"):
                hit = True
    if not any(s["prop"] == run.pid for s in r.get("spec", [])):
        print("  no clause of %s fails" % run.pid)
    if hit or (rp.get("kind") == "divergence" and any(m["prop"] == run.pid for m in r.get("model", []))):
        run.violation(d.get("key"), d.get("what"), rp, nofail=(rp.get("kind") == "divergence"))
