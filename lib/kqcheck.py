# kqcheck.py — checks for C17 (kqueue: descriptors closed again, only user paths listed) and
# C18 (kqueue: each new entry reported once, then its changes).  Conventions of tables.py.
import os, re, json, time, random, shutil, glob
from common import *

KQ = os.path.join(VERIF, "kq")
KQB = os.path.join(BUILD, "kq")
KQ_SRC = os.environ.get("VERIF_KQ_SRC", REPO)          # tree the backend is copied from (mutation experiments point this elsewhere)
COPIED = ["backend_kqueue.go", "fsnotify.go", "shared.go", "system_bsd.go"]

EXTRACT_DIRECTIVES = ["ExtrOcamlBasic: bool,option,unit,list,prod,sumbool,sumor -> OCaml natives",
                      "ExtrOcamlString: ascii -> char, string -> char list",
                      "numbers are not remapped (N/positive/nat stay Coq datatypes)"]


# ------------------------------------------------------------------ check-time build of the copied backend

def copy_backend():
    """copy the kqueue backend from the CURRENT working tree into build/kq, rewrite imports, add accessor + harness.
    returns (ok, log)"""
    os.makedirs(KQB, exist_ok=True)
    for sub in ("fsnotify", "simunix", "internal", "harness"):
        d = os.path.join(KQB, sub)
        shutil.rmtree(d, ignore_errors=True)
        os.makedirs(d)
    for f in COPIED:
        src = os.path.join(KQ_SRC, f)
        if not os.path.exists(src):
            return False, "missing source file " + src
        txt = open(src).read()
        txt = re.sub(r"(?m)^//go:build .*\n", "", txt)
        txt = re.sub(r"(?m)^// \+build .*\n", "", txt)
        txt = txt.replace('"golang.org/x/sys/unix"', 'unix "kqscratch/simunix"')
        txt = txt.replace('"github.com/fsnotify/fsnotify/internal"', '"kqscratch/internal"')
        with open(os.path.join(KQB, "fsnotify", f), "w") as fh:
            fh.write(txt)
    shutil.copyfile(os.path.join(KQ, "harness", "accessor.go.txt"), os.path.join(KQB, "fsnotify", "verif_accessor.go"))
    for f in os.listdir(os.path.join(KQ, "simunix")):
        if f.endswith(".go"):
            shutil.copyfile(os.path.join(KQ, "simunix", f), os.path.join(KQB, "simunix", f))
    shutil.copyfile(os.path.join(KQ, "stub", "internal.go"), os.path.join(KQB, "internal", "internal.go"))
    for f in os.listdir(os.path.join(KQ, "harness")):
        if f.endswith(".go"):
            shutil.copyfile(os.path.join(KQ, "harness", f), os.path.join(KQB, "harness", f))
    with open(os.path.join(KQB, "go.mod"), "w") as fh:
        fh.write("module kqscratch\n\ngo 1.17\n")
    return True, ""


def build_kq():
    """(ok, log, binary)"""
    ok, log = copy_backend()
    binp = os.path.join(KQB, "kqh")
    if not ok:
        return False, log, binp
    rc, out = sh("go build -o %s ./harness" % binp, cwd=KQB, timeout=600)
    return rc == 0, out, binp
